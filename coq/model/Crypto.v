(* Gokrb5.model.Crypto — Kerberos cryptosystem written from RFC 3961 (simplified profile, n-fold, DES3),
   RFC 3962 (AES-CTS-HMAC-SHA1), RFC 8009 (AES-CTS-HMAC-SHA2) and RFC 4757 (RC4-HMAC), on top of the
   Gallina primitives in prim/.  This is the independent implementation properties C05-C08 refer to;
   where gokrb5's own control flow matters (key sizes, error checks, usage mapping) it is mirrored. *)
From Gokrb5.lib Require Import Bytes JV.
From Gokrb5.prim Require SHA1 SHA256 SHA512 MD4 MD5 HMAC PBKDF2 CBC AES DES RC4.

Definition zeros (n : nat) : bytes := repeatz 0 n.

(* ---------------- n-fold (RFC 3961 5.1) ---------------- *)

(* rotate the k-bit number v right by r bits *)
Definition rotr_bits (k v r : Z) : Z :=
  let r := r mod k in
  Z.lor (Z.shiftr v r) (Z.shiftl (v mod 2 ^ r) (k - r)).

(* ones'-complement addition of two n-bit numbers with end-around carry *)
Definition oc_add (n a b : Z) : Z :=
  let s := a + b in if 2 ^ n <=? s then s - 2 ^ n + 1 else s.

Fixpoint nfold_concat (k v : Z) (i : nat) (cnt : nat) (acc : Z) : Z :=
  match cnt with
  | O => acc
  | S c => nfold_concat k v (S i) c (acc * 2 ^ k + rotr_bits k v (13 * Z.of_nat i))
  end.

Fixpoint nfold_sum (n : Z) (big : Z) (cnt : nat) (acc : Z) : Z :=
  (* chunks are consumed from the least significant end; addition is commutative *)
  match cnt with
  | O => acc
  | S c => nfold_sum n (Z.shiftr big n) c (oc_add n acc (big mod 2 ^ n))
  end.

(* n-fold of m to nbits bits (nbits a positive multiple of 8, m non-empty) *)
Definition nfold (m : bytes) (nbits : Z) : bytes :=
  let k := 8 * zlen m in
  if (k <=? 0) || (nbits <=? 0) then [] else
  let l := Z.lcm nbits k in
  let big := nfold_concat k (be_val m) 0 (Z.to_nat (l / k)) 0 in
  be_bytes (Z.to_nat (nbits / 8)) (nfold_sum nbits big (Z.to_nat (l / nbits)) 0).

(* ---------------- etype parameters (RFC 3961 6.3, RFC 3962 6, RFC 8009 5, RFC 4757) ---------------- *)

Inductive family := FAesSha1 | FAesSha2 | FDes3 | FRc4.

Definition et_family (et : Z) : option family :=
  if (et =? 17) || (et =? 18) then Some FAesSha1
  else if (et =? 19) || (et =? 20) then Some FAesSha2
  else if et =? 16 then Some FDes3
  else if et =? 23 then Some FRc4
  else None.

Definition key_len (et : Z) : nat :=           (* protocol key length in bytes *)
  if (et =? 17) || (et =? 19) || (et =? 23) then 16
  else if (et =? 18) || (et =? 20) then 32
  else if et =? 16 then 24 else 0.
Definition mac_len (et : Z) : nat :=
  if (et =? 17) || (et =? 18) then 12
  else if et =? 19 then 16 else if et =? 20 then 24
  else if et =? 16 then 20 else if et =? 23 then 16 else 0.
Definition conf_len (et : Z) : nat :=
  if (et =? 16) || (et =? 23) then 8 else 16.
Definition chksum_type_of_etype (et : Z) : Z :=
  if et =? 17 then 15 else if et =? 18 then 16 else if et =? 19 then 19 else if et =? 20 then 20
  else if et =? 16 then 12 else if et =? 23 then (-138) else 0.
Definition etype_of_chksum_type (ct : Z) : option Z :=
  if ct =? 15 then Some 17 else if ct =? 16 then Some 18 else if ct =? 19 then Some 19
  else if ct =? 20 then Some 20 else if ct =? 12 then Some 16 else if ct =? (-138) then Some 23 else None.

Definition usage_const (usage o : Z) : bytes := be_bytes 4 usage ++ [o].

(* ---------------- block modes ---------------- *)

Definition zpad (bs : nat) (d : bytes) : bytes := d ++ zeros ((bs - length d mod bs) mod bs).

Definition last_two (bl : list bytes) : option (list bytes * bytes * bytes) :=
  match rev bl with
  | l :: p :: r => Some (rev r, p, l)
  | _ => None
  end.

Section CTS.
  Variables enc dec : bytes -> bytes.

  (* AES-CBC-CS3 with zero IV (RFC 3962 section 5 / RFC 8009 section 5) *)
  Definition cts_encrypt (d : bytes) : bytes :=
    let n := length d in
    let c := CBC.cbc_encrypt enc 16 (zeros 16) (zpad 16 d) in
    if (n <=? 16)%nat then c
    else match last_two (CBC.chunks 16 c) with
         | Some (r, p, l) => firstn n (concat (r ++ [l; p]))
         | None => c
         end.

  Definition cts_decrypt (c : bytes) : res bytes :=
    let n := length c in
    if (n <? 16)%nat then Err 1
    else if (n =? 16)%nat then Ok (CBC.cbc_decrypt dec 16 (zeros 16) c)
    else match last_two (CBC.chunks 16 c) with
         | Some (r, cp, cl) =>
           let cl_full := cl ++ skipn (length cl) (dec cp) in
           Ok (firstn n (CBC.cbc_decrypt dec 16 (zeros 16) (concat (r ++ [cl_full; cp]))))
         | None => Err 2
         end.
End CTS.

(* ---------------- RFC 3961 simplified profile: DR / DK ---------------- *)

Fixpoint dr_blocks (e : bytes -> bytes) (n : nat) (k : bytes) : bytes :=
  match n with O => [] | S n' => let k' := e k in k' ++ dr_blocks e n' k' end.

(* DR(key, constant) with block encryption e (one block, zero IV), block size bs bytes, seed bytes *)
Definition dr (e : bytes -> bytes) (bs seed : nat) (constant : bytes) : bytes :=
  firstn seed (dr_blocks e (Nat.div (seed + bs - 1) bs) (nfold constant (8 * Z.of_nat bs))).

(* DES3 random-to-key (RFC 3961 6.3.1): parity bits and weak-key correction *)
Definition parity_fix (b : Z) : Z :=       (* set bit 0 so that the byte has odd parity *)
  let hi := Z.land b 254 in
  let ones := fold_left (fun acc i => acc + (if Z.testbit hi i then 1 else 0)) [1;2;3;4;5;6;7] 0 in
  if Z.even ones then Z.lor hi 1 else hi.

Definition stretch56 (b7 : bytes) : bytes :=
  let lb := fold_left (fun acc '(i, v) => Z.lor acc (Z.shiftl (Z.land v 1) (i + 1)))
                      (combine [0;1;2;3;4;5;6] b7) 0 in
  map parity_fix b7 ++ [parity_fix lb].

Definition des_weak_keys : list bytes :=
  [[1;1;1;1;1;1;1;1]; [254;254;254;254;254;254;254;254]; [224;224;224;224;241;241;241;241];
   [31;31;31;31;14;14;14;14];
   [1;31;1;31;1;14;1;14]; [31;1;31;1;14;1;14;1]; [1;224;1;224;1;241;1;241]; [224;1;224;1;241;1;241;1];
   [1;254;1;254;1;254;1;254]; [254;1;254;1;254;1;254;1]; [31;224;31;224;14;241;14;241];
   [224;31;224;31;241;14;241;14]; [31;254;31;254;14;254;14;254]; [254;31;254;31;254;14;254;14];
   [224;254;224;254;241;254;241;254]; [254;224;254;224;254;241;254;241]].

Definition fix_weak (k8 : bytes) : bytes :=
  if existsb (beq_bytes k8) des_weak_keys
  then firstn 7 k8 ++ [Z.lxor (nth 7 k8 0) 240] else k8.

Definition des3_random_to_key (b21 : bytes) : bytes :=
  fix_weak (stretch56 (slice b21 0 7)) ++ fix_weak (stretch56 (slice b21 7 14))
  ++ fix_weak (stretch56 (slice b21 14 21)).

(* one-block encryption under a protocol key *)
Definition aes_ecb (key : bytes) : bytes -> bytes :=
  let rks := AES.aes_expand_key key in AES.aes_encrypt_rk rks.
Definition aes_ecb_dec (key : bytes) : bytes -> bytes :=
  let rks := AES.aes_expand_key key in AES.aes_decrypt_rk rks.
Definition des3_ecb (key : bytes) : bytes -> bytes :=
  let ks := DES.tdes_expand_key key in DES.tdes_encrypt_ks ks.
Definition des3_ecb_dec (key : bytes) : bytes -> bytes :=
  let ks := DES.tdes_expand_key key in DES.tdes_decrypt_ks ks.

(* KDF-HMAC-SHA2 (RFC 8009 section 3), k in bits *)
Definition kdf_hmac_sha2 (h : bytes -> bytes -> bytes) (key label context : bytes) (kbits : Z) : bytes :=
  firstn (Z.to_nat (kbits / 8))
         (h key ([0;0;0;1] ++ label ++ [0] ++ context ++ be_bytes 4 kbits)).

(* DK for the key-derivation constant c (usage || 0xAA/0x55/0x99, or "kerberos") per etype.
   RFC 8009: Ke has the cipher key size, Ki and Kc have the truncated-MAC size (128 / 192 bits). *)
Definition derive_key (et : Z) (key : bytes) (c : bytes) : res bytes :=
  match et_family et with
  | Some FAesSha1 =>
    if negb (length key =? key_len et)%nat then Err 30
    else Ok (dr (aes_ecb key) 16 (key_len et) c)
  | Some FDes3 =>
    if negb (length key =? 24)%nat then Err 30
    else Ok (des3_random_to_key (dr (des3_ecb key) 8 21 c))
  | Some FAesSha2 =>
    if et =? 19 then Ok (kdf_hmac_sha2 HMAC.hmac_sha256 key c [] 128)
    else
      let is_ke := match rev c with o :: _ => o =? 170 | [] => false end in
      let is_kerberos := beq_bytes c [107;101;114;98;101;114;111;115] in
      Ok (kdf_hmac_sha2 HMAC.hmac_sha384 key c [] (if is_ke || is_kerberos then 256 else 192))
  | Some FRc4 => Ok (HMAC.hmac_md5 key c)
  | None => Err 31
  end.

Definition et_hmac (et : Z) : bytes -> bytes -> bytes :=
  if et =? 19 then HMAC.hmac_sha256 else if et =? 20 then HMAC.hmac_sha384
  else if et =? 23 then HMAC.hmac_md5 else HMAC.hmac_sha1.

(* ---------------- RFC 4757 ---------------- *)

Definition rc4_msg_type (usage : Z) : bytes :=
  let u := if (usage =? 3) || (usage =? 9) then 8 else if usage =? 23 then 13 else usage in
  le_bytes 4 u.

Definition signaturekey : bytes := [115;105;103;110;97;116;117;114;101;107;101;121;0].

Definition rc4_checksum (key : bytes) (usage : Z) (data : bytes) : bytes :=
  let ksign := HMAC.hmac_md5 key signaturekey in
  HMAC.hmac_md5 ksign (MD5.md5 (rc4_msg_type usage ++ data)).

Definition rc4_encrypt (key : bytes) (usage : Z) (conf msg : bytes) : res bytes :=
  let k2 := HMAC.hmac_md5 key (rc4_msg_type usage) in
  let toenc := conf ++ msg in
  let chk := HMAC.hmac_md5 k2 toenc in
  let k3 := HMAC.hmac_md5 k2 chk in
  if negb (length k3 =? 16)%nat then Err 30 else Ok (chk ++ RC4.rc4 k3 toenc).

Definition rc4_decrypt (key : bytes) (usage : Z) (ct : bytes) : res bytes :=
  if (length ct <? 24)%nat then Err 40 else
  let chk := firstn 16 ct in
  let k2 := HMAC.hmac_md5 key (rc4_msg_type usage) in
  let k3 := HMAC.hmac_md5 k2 chk in
  let pt := RC4.rc4 k3 (skipn 16 ct) in
  if beq_bytes (HMAC.hmac_md5 k2 pt) chk then Ok (skipn 8 pt) else Err 41.

(* ---------------- message encryption ---------------- *)

(* integrity MAC of the RFC 3961 / 8009 profiles *)
Definition integrity_hash (et : Z) (key : bytes) (usage : Z) (data : bytes) : res bytes :=
  do ki <- derive_key et key (usage_const usage 85);
  Ok (firstn (mac_len et) (et_hmac et ki data)).

Definition encrypt_with (et : Z) (key : bytes) (usage : Z) (conf msg : bytes) : res bytes :=
  match et_family et with
  | Some FRc4 =>
    if negb (length key =? 16)%nat then
      (* gokrb5 derives k3 with HMAC-MD5 whatever the key length: only k3's length is checked *) rc4_encrypt key usage conf msg
    else rc4_encrypt key usage conf msg
  | Some FAesSha1 =>
    if negb (length key =? key_len et)%nat then Err 30 else
    do ke <- derive_key et key (usage_const usage 170);
    let pt := conf ++ msg in
    do ih <- integrity_hash et key usage pt;
    Ok (cts_encrypt (aes_ecb ke) pt ++ ih)
  | Some FAesSha2 =>
    if negb (length key =? key_len et)%nat then Err 30 else
    do ke <- derive_key et key (usage_const usage 170);
    let c := cts_encrypt (aes_ecb ke) (conf ++ msg) in
    do ih <- integrity_hash et key usage (zeros 16 ++ c);
    Ok (c ++ ih)
  | Some FDes3 =>
    do ke <- derive_key et key (usage_const usage 170);
    let pt := zpad 8 (conf ++ msg) in
    do ih <- integrity_hash et key usage pt;
    Ok (CBC.cbc_encrypt (des3_ecb ke) 8 (zeros 8) pt ++ ih)
  | None => Err 31
  end.

(* Decryption; inputs shorter than confounder + MAC and keys of the wrong size are errors (repaired code). *)
Definition decrypt (et : Z) (key : bytes) (usage : Z) (ct : bytes) : res bytes :=
  match et_family et with
  | Some FRc4 => if negb (length key =? key_len et)%nat then Err 30 else rc4_decrypt key usage ct
  | Some FAesSha1 =>
    if (length ct <? conf_len et + mac_len et)%nat then Err 40 else
    do ke <- derive_key et key (usage_const usage 170);
    let n := (length ct - mac_len et)%nat in
    do pt <- cts_decrypt (aes_ecb_dec ke) (firstn n ct);
    do ih <- integrity_hash et key usage pt;
    if beq_bytes ih (skipn n ct) then Ok (skipn 16 pt) else Err 41
  | Some FAesSha2 =>
    if negb (length key =? key_len et)%nat then Err 30 else
    if (length ct <? conf_len et + mac_len et)%nat then Err 40 else
    do ke <- derive_key et key (usage_const usage 170);
    let n := (length ct - mac_len et)%nat in
    do pt <- cts_decrypt (aes_ecb_dec ke) (firstn n ct);
    do ih <- integrity_hash et key usage (zeros 16 ++ firstn n ct);
    if beq_bytes ih (skipn n ct) then Ok (skipn 16 pt) else Err 41
  | Some FDes3 =>
    if (length ct <? conf_len et + mac_len et)%nat then Err 40 else
    do ke <- derive_key et key (usage_const usage 170);
    let n := (length ct - mac_len et)%nat in
    if negb (Nat.modulo n 8 =? 0)%nat then Err 42 else
    let pt := CBC.cbc_decrypt (des3_ecb_dec ke) 8 (zeros 8) (firstn n ct) in
    do ih <- integrity_hash et key usage pt;
    if beq_bytes ih (skipn n ct) then Ok (skipn 8 pt) else Err 41
  | None => Err 31
  end.

(* ---------------- keyed checksums (C07) ---------------- *)

Definition checksum (et : Z) (key : bytes) (usage : Z) (data : bytes) : res bytes :=
  match et_family et with
  | Some FRc4 => Ok (rc4_checksum key usage data)
  | Some _ =>
    do kc <- derive_key et key (usage_const usage 153);
    Ok (firstn (mac_len et) (et_hmac et kc data))
  | None => Err 31
  end.

Definition verify_checksum (et : Z) (key : bytes) (usage : Z) (data chk : bytes) : bool :=
  match checksum et key usage data with
  | Ok c => beq_bytes chk c
  | _ => false
  end.

Definition checksum_opt (et : Z) (key : bytes) (usage : Z) (data : bytes) : option bytes :=
  match checksum et key usage data with Ok c => Some c | _ => None end.

(* ---------------- string-to-key (C08) ---------------- *)

Definition kerberos_const : bytes := [107;101;114;98;101;114;111;115].

(* UTF-8 decoding as Go's `range` over a string does it (invalid bytes give U+FFFD, width 1) *)
Definition cont (b : Z) : bool := (128 <=? b) && (b <? 192).
Fixpoint utf8_runes (fuel : nat) (s : bytes) : list Z :=
  match fuel with O => [] | S f =>
  match s with
  | [] => []
  | b0 :: r =>
    if b0 <? 128 then b0 :: utf8_runes f r
    else match r with
    | b1 :: r1 =>
      if (194 <=? b0) && (b0 <? 224) && cont b1 then ((b0 - 192) * 64 + (b1 - 128)) :: utf8_runes f r1
      else match r1 with
      | b2 :: r2 =>
        let lo1 := if b0 =? 224 then 160 else 128 in
        let hi1 := if b0 =? 237 then 160 else 192 in
        if (224 <=? b0) && (b0 <? 240) && (lo1 <=? b1) && (b1 <? hi1) && cont b2
        then ((b0 - 224) * 4096 + (b1 - 128) * 64 + (b2 - 128)) :: utf8_runes f r2
        else match r2 with
        | b3 :: r3 =>
          let lo := if b0 =? 240 then 144 else 128 in
          let hi := if b0 =? 244 then 144 else 192 in
          if (240 <=? b0) && (b0 <? 245) && (lo <=? b1) && (b1 <? hi) && cont b2 && cont b3
          then ((b0 - 240) * 262144 + (b1 - 128) * 4096 + (b2 - 128) * 64 + (b3 - 128)) :: utf8_runes f r3
          else 65533 :: utf8_runes f r
        | [] => 65533 :: utf8_runes f r
        end
      | [] => 65533 :: utf8_runes f r
      end
    | [] => [65533]
    end
  end end.

Definition utf16le (runes : list Z) : bytes :=
  flat_map (fun r =>
    if r <? 65536 then le_bytes 2 r
    else let r' := r - 65536 in
         le_bytes 2 (55296 + r' / 1024) ++ le_bytes 2 (56320 + r' mod 1024)) runes.

Definition s2k_rc4 (password : bytes) : bytes :=
  MD4.md4 (utf16le (utf8_runes (length password) password)).

(* s2kparams as gokrb5 receives it: the hex text of a 4-byte big-endian iteration count *)
Definition hexval (c : Z) : option Z :=
  if (48 <=? c) && (c <=? 57) then Some (c - 48)
  else if (97 <=? c) && (c <=? 102) then Some (c - 87)
  else if (65 <=? c) && (c <=? 70) then Some (c - 55) else None.
Fixpoint hex_to_int (s : bytes) (acc : Z) : option Z :=
  match s with
  | [] => Some acc
  | c :: r => match hexval c with Some v => hex_to_int r (acc * 16 + v) | None => None end
  end.
Definition s2k_iterations (params : bytes) : res Z :=
  if negb (length params =? 8)%nat then Err 50
  else match hex_to_int params 0 with
       | Some i => if (i =? 0) || (16777216 <? i) then Err 53 else Ok i   (* bounded as MIT krb5 does: 1..2^24 *)
       | None => Err 51 end.

Definition string_to_key (et : Z) (password salt params : bytes) : res bytes :=
  match et_family et with
  | Some FRc4 => Ok (s2k_rc4 password)
  | Some FDes3 =>
    if negb (length params =? 0)%nat then Err 52 else
    let tkey := des3_random_to_key (nfold (password ++ salt) 168) in
    derive_key 16 tkey kerberos_const
  | Some FAesSha1 =>
    do it <- s2k_iterations params;
    let tkey := PBKDF2.pbkdf2_sha1 password salt it (key_len et) in
    derive_key et tkey kerberos_const
  | Some FAesSha2 =>
    do it <- s2k_iterations params;
    let ename := if et =? 19
                 then [97;101;115;49;50;56;45;99;116;115;45;104;109;97;99;45;115;104;97;50;53;54;45;49;50;56]
                 else [97;101;115;50;53;54;45;99;116;115;45;104;109;97;99;45;115;104;97;51;56;52;45;49;57;50] in
    let saltp := ename ++ [0] ++ salt in
    let tkey := if et =? 19 then PBKDF2.pbkdf2_sha256 password saltp it 16
                else PBKDF2.pbkdf2_sha384 password saltp it 32 in
    derive_key et tkey kerberos_const
  | None => Err 31
  end.

(* ---------------- jv interface ---------------- *)

Definition jbytes_res (r : res bytes) : jv := jres (fun b => [JB b]) r.

Definition nfold_j (j : jv) : jv :=
  match j with JL [JB m; JI n] => jok [JB (nfold m n)] | _ => jbad end.

Definition derive_key_j (j : jv) : jv :=
  match j with JL [JI et; JB key; JB c] => jbytes_res (derive_key et key c) | _ => jbad end.

Definition checksum_j (j : jv) : jv :=
  match j with JL [JI et; JB key; JI usage; JB data] => jbytes_res (checksum et key usage data) | _ => jbad end.

Definition verify_checksum_j (j : jv) : jv :=
  match j with
  | JL [JI et; JB key; JI usage; JB data; JB chk] => jok [jbool (verify_checksum et key usage data chk)]
  | _ => jbad end.

Definition decrypt_j (j : jv) : jv :=
  match j with JL [JI et; JB key; JI usage; JB ct] => jbytes_res (decrypt et key usage ct) | _ => jbad end.

(* decrypt what the implementation produced, recover the confounder, re-encrypt: bytes must be reproduced *)
Definition crypt_check_j (j : jv) : jv :=
  match j with
  | JL [JI et; JB key; JI usage; JB ct] =>
    match decrypt et key usage ct with
    | Ok msg =>
      (* the confounder is the first conf_len bytes of the decrypted stream; recompute it *)
      let conf :=
        match et_family et with
        | Some FRc4 =>
          let k2 := HMAC.hmac_md5 key (rc4_msg_type usage) in
          firstn 8 (RC4.rc4 (HMAC.hmac_md5 k2 (firstn 16 ct)) (skipn 16 ct))
        | Some FDes3 =>
          match derive_key et key (usage_const usage 170) with
          | Ok ke => firstn 8 (CBC.cbc_decrypt (des3_ecb_dec ke) 8 (zeros 8) (firstn 8 ct))
          | _ => [] end
        | Some _ =>
          match derive_key et key (usage_const usage 170) with
          | Ok ke => match cts_decrypt (aes_ecb_dec ke) (firstn (length ct - mac_len et) ct) with
                     | Ok pt => firstn 16 pt | _ => [] end
          | _ => [] end
        | None => []
        end in
      (* des3 pads the message with zeros: re-encrypt the unpadded message of the stated length *)
      jok [JB msg; JB conf;
           jbool match encrypt_with et key usage conf msg with Ok c => beq_bytes c ct | _ => false end]
    | Err _ => jerr
    | Panic _ => jpanic
    end
  | _ => jbad
  end.

Definition encrypt_with_j (j : jv) : jv :=
  match j with
  | JL [JI et; JB key; JI usage; JB conf; JB msg] => jbytes_res (encrypt_with et key usage conf msg)
  | _ => jbad end.

Definition string_to_key_j (j : jv) : jv :=
  match j with
  | JL [JI et; JB pw; JB salt; JB params] => jbytes_res (string_to_key et pw salt params)
  | _ => jbad end.

Definition des3_random_to_key_j (j : jv) : jv :=
  match j with JB b => jok [JB (des3_random_to_key b)] | _ => jbad end.
