(* Gokrb5.model.Krb5Conf — v8/config/krb5conf.go (repaired code: fix-1, fix-3 .. fix-7 of agentwork/c16):
   NewFromScanner (line scanner, section splitting by the five regular expressions), LibDefaults.parseLines,
   parseRealms / Realm.parseLines / appendUntilFinal, DomainRealm.parseLines, Config.ResolveRealm,
   parseDuration / parseBoolean / parseETypes.  Go strings are byte strings; every Go index / slice
   expression is a [gindex] / [gslice] that returns Panic when out of range.

   Modelled inputs: configuration text whose bytes are all < 128 and shorter than 60000 bytes (a longer text
   may contain a line the 64 KiB scanner buffer rejects); durations as far as [go_parse_duration] is modelled
   (no '.', no leading sign).  Outside that the answer is [Err unmodelled], which the harness never compares.
   The relation extra_addresses (net.ParseIP) is recognised and skipped. *)
From Coq Require Import String.
From Gokrb5.lib Require Import Bytes JV GoString.
Open Scope Z_scope.

(* string constants, evaluated to byte lists so that no Coq string reaches the extracted code *)
Definition S_port464 : bytes := Eval cbv in bs ":464".
Definition S_port88 : bytes := Eval cbv in bs ":88".
Definition S_port88_final : bytes := Eval cbv in bs ":88*".
Definition S_admin_server : bytes := Eval cbv in bs "admin_server".
Definition S_allow_weak_crypto : bytes := Eval cbv in bs "allow_weak_crypto".
Definition S_default_domain : bytes := Eval cbv in bs "default_domain".
Definition S_default_tgs_enctypes : bytes := Eval cbv in bs "default_tgs_enctypes".
Definition S_default_tkt_enctypes : bytes := Eval cbv in bs "default_tkt_enctypes".
Definition S_domain_realm : bytes := Eval cbv in bs "domain_realm".
Definition S_kdc : bytes := Eval cbv in bs "kdc".
Definition S_kpasswd_server : bytes := Eval cbv in bs "kpasswd_server".
Definition S_libdefaults : bytes := Eval cbv in bs "libdefaults".
Definition S_master_kdc : bytes := Eval cbv in bs "master_kdc".
Definition S_n : bytes := Eval cbv in bs "n".
Definition S_no : bytes := Eval cbv in bs "no".
Definition S_permitted_enctypes : bytes := Eval cbv in bs "permitted_enctypes".
Definition S_realms : bytes := Eval cbv in bs "realms".
Definition S_v4_tag : bytes := Eval cbv in bs "v4_".
Definition S_y : bytes := Eval cbv in bs "y".
Definition S_yes : bytes := Eval cbv in bs "yes".

Definition invalid : Z := 1.       (* any error value of the Go code *)
Definition unmodelled : Z := 9.

(* ------------------------------------------------------------------ parseBoolean *)
Definition parse_boolean (s : bytes) : res bool :=
  let s := trim_space s in
  match parse_bool_go s with
  | Some v => Ok v
  | None =>
    let l := to_lower s in
    if beq_bytes l S_yes || beq_bytes l S_y then Ok true
    else if beq_bytes l S_no || beq_bytes l S_n then Ok false
    else Err invalid
  end.

(* ------------------------------------------------------------------ parseDuration (nanoseconds, int64) *)
Definition second_ns : Z := 1000000000.
Definition minute_ns : Z := 60 * second_ns.
Definition hour_ns : Z := 60 * minute_ns.

Fixpoint map_res {A B} (f : A -> res B) (l : list A) : res (list B) :=
  match l with
  | [] => Ok []
  | x :: r => do y <- f x; do ys <- map_res f r; Ok (y :: ys)
  end.

Definition parse_duration (s : bytes) : res Z :=
  let s := remove_byte 32 (trim_space s) in
  if contains_byte 100 s then                                   (* Nd[NhNmNs] *)
    let ds := splitn 100 2 s in
    do d0 <- gindex 1 ds 0;
    match parse_uint 32 d0 with
    | None => Err invalid
    | Some dn =>
      let d := sint 64 (dn * 24 * hour_ns) in                   (* time.Duration(dn*24) * time.Hour wraps *)
      do d1 <- gindex 2 ds 1;
      match d1 with
      | [] => Ok d
      | _ => match go_parse_duration d1 with
             | DOk dp => Ok (sint 64 (d + dp))
             | DErr => Err invalid
             | DUnmodelled => Err unmodelled
             end
      end
    end
  else
    match go_parse_duration s with                              (* NhNmNs and "0" *)
    | DOk d => Ok d
    | DUnmodelled => Err unmodelled
    | DErr =>
      match (match parse_uint 32 s with Some v => if 0 <? v then Some v else None | None => None end) with
      | Some v => Ok (v * second_ns)                            (* N seconds *)
      | None =>
        if contains_byte 58 s then                              (* h:m[:s] *)
          let t := split_byte 58 s in
          if (zlen t <? 2) || (3 <? zlen t) then Err invalid
          else
            do i <- map_res (fun n => match parse_int 16 n with Some j => Ok j | None => Err invalid end) t;
            do i0 <- gindex 3 i 0;
            do i1 <- gindex 4 i 1;
            let d := i0 * hour_ns + i1 * minute_ns in
            if zlen i =? 3 then do i2 <- gindex 5 i 2; Ok (d + i2 * second_ns) else Ok d
        else Err invalid
      end
    end.

(* ------------------------------------------------------------------ parseETypes *)
Definition weak_etype_list : bytes := Eval cbv in
  bs "des-cbc-crc des-cbc-md4 des-cbc-md5 des-cbc-raw des3-cbc-raw des-hmac-sha1 arcfour-hmac-exp rc4-hmac-exp arcfour-hmac-md5-exp des".

(* strings.Fields(WeakETypeList), evaluated once *)
Definition weak_etypes : list bytes := Eval cbv in fields weak_etype_list.

(* iana/etypeID.ETypesByName *)
Definition etypes_by_name : list (bytes * Z) := Eval cbv in
  [ (bs "des-cbc-crc", 1); (bs "des-cbc-md4", 2); (bs "des-cbc-md5", 3); (bs "des-cbc-raw", 4);
    (bs "des3-cbc-md5", 5); (bs "des3-cbc-raw", 6); (bs "des3-cbc-sha1", 7); (bs "des3-hmac-sha1", 8);
    (bs "des3-cbc-sha1-kd", 16); (bs "des-hmac-sha1", 8); (bs "dsaWithSHA1-CmsOID", 9);
    (bs "md5WithRSAEncryption-CmsOID", 10); (bs "sha1WithRSAEncryption-CmsOID", 11);
    (bs "rc2CBC-EnvOID", 12); (bs "rsaEncryption-EnvOID", 13); (bs "rsaES-OAEP-ENV-OID", 14);
    (bs "des-ede3-cbc-Env-OID", 15);
    (bs "aes128-cts-hmac-sha1-96", 17); (bs "aes128-cts", 17); (bs "aes128-sha1", 17);
    (bs "aes256-cts-hmac-sha1-96", 18); (bs "aes256-cts", 18); (bs "aes256-sha1", 18);
    (bs "aes128-cts-hmac-sha256-128", 19); (bs "aes128-sha2", 19);
    (bs "aes256-cts-hmac-sha384-192", 20); (bs "aes256-sha2", 20);
    (bs "arcfour-hmac", 23); (bs "rc4-hmac", 23); (bs "arcfour-hmac-md5", 23);
    (bs "arcfour-hmac-exp", 24); (bs "rc4-hmac-exp", 24); (bs "arcfour-hmac-md5-exp", 24);
    (bs "camellia128-cts-cmac", 25); (bs "camellia128-cts", 25);
    (bs "camellia256-cts-cmac", 26); (bs "camellia256-cts", 26);
    (bs "subkey-keymaterial", 65) ].

(* etypeID.EtypeSupported *)
Definition etype_supported (name : bytes) : Z :=
  match lookup name etypes_by_name with
  | None => 0
  | Some id => if existsb (Z.eqb id) [17; 18; 19; 20; 16; 23] then id else 0
  end.

Fixpoint parse_etypes (s : list bytes) (w : bool) : list Z :=
  match s with
  | [] => []
  | et :: r =>
    if negb w && existsb (beq_bytes et) weak_etypes then parse_etypes r w
    else let i := etype_supported et in
         if i =? 0 then parse_etypes r w else i :: parse_etypes r w
  end.

(* ------------------------------------------------------------------ appendUntilFinal *)
Definition append_until_final (s : list bytes) (value : bytes) (final : bool) : list bytes * bool :=
  if final then (s, final)
  else match rev value with
       | 42 :: r => (s ++ [rev r], true)
       | _ => (s ++ [value], false)
       end.

(* ------------------------------------------------------------------ [libdefaults] *)
Inductive kind :=
| KBool | KDur | KStr | KETypes
| KNum (unsigned : bool) (lo hi : Z)
| KHex | KPreauth | KExtra.

Inductive lval :=
| VB (b : bool) | VZ (z : Z) | VS (s : bytes) | VL (l : list bytes) | VZs (l : list Z).

Definition ld_keys : list (bytes * kind) := Eval cbv in
  [ (bs "allow_weak_crypto", KBool); (bs "canonicalize", KBool);
    (bs "ccache_type", KNum true 0 4); (bs "clockskew", KDur);
    (bs "default_client_keytab_name", KStr); (bs "default_keytab_name", KStr); (bs "default_realm", KStr);
    (bs "default_tgs_enctypes", KETypes); (bs "default_tkt_enctypes", KETypes);
    (bs "dns_canonicalize_hostname", KBool); (bs "dns_lookup_kdc", KBool); (bs "dns_lookup_realm", KBool);
    (bs "extra_addresses", KExtra);
    (bs "forwardable", KBool); (bs "ignore_acceptor_hostname", KBool); (bs "k5login_authoritative", KBool);
    (bs "k5login_directory", KStr); (bs "kdc_default_options", KHex);
    (bs "kdc_timesync", KNum false 0 (2 ^ 31 - 1)); (bs "noaddresses", KBool);
    (bs "permitted_enctypes", KETypes); (bs "preferred_preauth_types", KPreauth);
    (bs "proxiable", KBool); (bs "rdns", KBool);
    (bs "realm_try_domains", KNum false (-1) (2 ^ 31 - 1)); (bs "renew_lifetime", KDur);
    (bs "safe_checksum_type", KNum false 0 (2 ^ 31 - 1)); (bs "ticket_lifetime", KDur);
    (bs "udp_preference_limit", KNum true 0 32700); (bs "verify_ap_req_nofail", KBool) ].

Definition ld := list (bytes * lval).

Fixpoint ld_set (k : bytes) (v : lval) (l : ld) : ld :=
  match l with
  | [] => [(k, v)]
  | (k', v') :: r => if beq_bytes k k' then (k, v) :: r else (k', v') :: ld_set k v r
  end.

Definition default_etypes : list bytes := Eval cbv in
  [ bs "aes256-cts-hmac-sha1-96"; bs "aes128-cts-hmac-sha1-96"; bs "des3-cbc-sha1"; bs "arcfour-hmac-md5";
    bs "camellia256-cts-cmac"; bs "camellia128-cts-cmac"; bs "des-cbc-crc"; bs "des-cbc-md5"; bs "des-cbc-md4" ].

(* newLibDefaults; the two values taken from os/user are arguments *)
Definition ld_init : bytes -> bytes -> ld := Eval cbv in fun client_keytab k5login_dir =>
  [ (bs "allow_weak_crypto", VB false); (bs "canonicalize", VB false);
    (bs "ccache_type", VZ 4); (bs "clockskew", VZ (300 * second_ns));
    (bs "default_client_keytab_name", VS client_keytab); (bs "default_keytab_name", VS (bs "/etc/krb5.keytab"));
    (bs "default_realm", VS []);
    (bs "default_tgs_enctypes", VL default_etypes); (bs "default_tkt_enctypes", VL default_etypes);
    (bs "dns_canonicalize_hostname", VB true); (bs "dns_lookup_kdc", VB false); (bs "dns_lookup_realm", VB false);
    (bs "forwardable", VB false); (bs "ignore_acceptor_hostname", VB false); (bs "k5login_authoritative", VB false);
    (bs "k5login_directory", VS k5login_dir); (bs "kdc_default_options", VS [0; 0; 0; 16]);
    (bs "kdc_timesync", VZ 1); (bs "noaddresses", VB true);
    (bs "permitted_enctypes", VL default_etypes); (bs "preferred_preauth_types", VZs [17; 16; 15; 14]);
    (bs "proxiable", VB false); (bs "rdns", VB true);
    (bs "realm_try_domains", VZ (-1)); (bs "renew_lifetime", VZ 0);
    (bs "safe_checksum_type", VZ 8); (bs "ticket_lifetime", VZ (24 * hour_ns));
    (bs "udp_preference_limit", VZ 1465); (bs "verify_ap_req_nofail", VB false) ].

Definition is_list_sep (b : Z) : bool := is_space b || (b =? 44).

(* the value of one relation, by the kind of its key; None = recognised and skipped *)
Definition parse_val (k : kind) (p1 : bytes) : res (option lval) :=
  match k with
  | KBool => do v <- parse_boolean p1; Ok (Some (VB v))
  | KDur => do d <- parse_duration p1; Ok (Some (VZ d))
  | KStr => Ok (Some (VS (trim_space p1)))
  | KETypes => Ok (Some (VL (fields_by is_list_sep p1)))
  | KNum u lo hi =>
    match (if u then parse_uint 32 else parse_int 32) (trim_space p1) with
    | Some v => if (lo <=? v) && (v <=? hi) then Ok (Some (VZ v)) else Err invalid
    | None => Err invalid
    end
  | KHex =>
    match hex_decode (remove_pair 48 120 (trim_space p1)) with
    | Some b => Ok (Some (VS b))
    | None => Err invalid
    end
  | KPreauth =>
    do v <- map_res (fun s => match parse_int 32 (trim_space s) with Some i => Ok i | None => Err invalid end)
                    (split_byte 44 (trim_space p1));
    Ok (Some (VZs v))
  | KExtra => Ok None
  end.

Definition is_comment_char (b : Z) : bool := (b =? 35) || (b =? 59).
Definition strip_comment (line : bytes) : bytes := take_until is_comment_char line.   (* IndexAny(line, "#;") *)
Definition is_nil {A} (l : list A) : bool := match l with [] => true | _ => false end.

Definition ld_line (l : ld) (line : bytes) : res ld :=
  let line := trim_space (strip_comment line) in
  if is_nil line then Ok l
  else if negb (contains_byte 61 line) then Err invalid
  else
    let p := split_byte 61 line in
    do p0 <- gindex 10 p 0;
    let key := trim_space (to_lower p0) in
    match lookup key ld_keys with
    | None => Ok l                                              (* unknown relation *)
    | Some k =>
      do p1 <- gindex 11 p 1;
      do v <- parse_val k p1;
      match v with Some v => Ok (ld_set key v l) | None => Ok l end
    end.

Fixpoint fold_res {A S} (f : S -> A -> res S) (s : S) (l : list A) : res S :=
  match l with
  | [] => Ok s
  | x :: r => do s' <- f s x; fold_res f s' r
  end.

Definition ld_parse_lines (l : ld) (lines : list bytes) : res ld := fold_res ld_line l lines.

(* ------------------------------------------------------------------ [realms] *)
Record realm := { r_name : bytes; r_admin : list bytes; r_dd : bytes;
                  r_kdc : list bytes; r_kpw : list bytes; r_mkdc : list bytes }.

Record rstate := { rs_r : realm; rs_fa : bool; rs_fk : bool; rs_fp : bool; rs_fm : bool;
                   rs_ignore : bool; rs_c : Z; rs_v4 : bool }.

Definition rs_flow (st : rstate) (ignore : bool) (c : Z) (v4 : bool) : rstate :=
  {| rs_r := rs_r st; rs_fa := rs_fa st; rs_fk := rs_fk st; rs_fp := rs_fp st; rs_fm := rs_fm st;
     rs_ignore := ignore; rs_c := c; rs_v4 := v4 |}.

Definition kdc_default_port (v : bytes) : bytes :=
  if negb (contains_byte 58 v) then
    if has_suffix [42] v then trim_space (trim_suffix v [42]) ++ S_port88_final
    else trim_space v ++ S_port88
  else v.

Definition realm_relation (st : rstate) (key v : bytes) : rstate :=
  let r := rs_r st in
  if beq_bytes key S_admin_server then
    let '(s, f) := append_until_final (r_admin r) v (rs_fa st) in
    {| rs_r := {| r_name := r_name r; r_admin := s; r_dd := r_dd r; r_kdc := r_kdc r; r_kpw := r_kpw r; r_mkdc := r_mkdc r |};
       rs_fa := f; rs_fk := rs_fk st; rs_fp := rs_fp st; rs_fm := rs_fm st;
       rs_ignore := rs_ignore st; rs_c := rs_c st; rs_v4 := rs_v4 st |}
  else if beq_bytes key S_default_domain then
    {| rs_r := {| r_name := r_name r; r_admin := r_admin r; r_dd := v; r_kdc := r_kdc r; r_kpw := r_kpw r; r_mkdc := r_mkdc r |};
       rs_fa := rs_fa st; rs_fk := rs_fk st; rs_fp := rs_fp st; rs_fm := rs_fm st;
       rs_ignore := rs_ignore st; rs_c := rs_c st; rs_v4 := rs_v4 st |}
  else if beq_bytes key S_kdc then
    let '(s, f) := append_until_final (r_kdc r) (kdc_default_port v) (rs_fk st) in
    {| rs_r := {| r_name := r_name r; r_admin := r_admin r; r_dd := r_dd r; r_kdc := s; r_kpw := r_kpw r; r_mkdc := r_mkdc r |};
       rs_fa := rs_fa st; rs_fk := f; rs_fp := rs_fp st; rs_fm := rs_fm st;
       rs_ignore := rs_ignore st; rs_c := rs_c st; rs_v4 := rs_v4 st |}
  else if beq_bytes key S_kpasswd_server then
    let '(s, f) := append_until_final (r_kpw r) v (rs_fp st) in
    {| rs_r := {| r_name := r_name r; r_admin := r_admin r; r_dd := r_dd r; r_kdc := r_kdc r; r_kpw := s; r_mkdc := r_mkdc r |};
       rs_fa := rs_fa st; rs_fk := rs_fk st; rs_fp := f; rs_fm := rs_fm st;
       rs_ignore := rs_ignore st; rs_c := rs_c st; rs_v4 := rs_v4 st |}
  else if beq_bytes key S_master_kdc then
    let '(s, f) := append_until_final (r_mkdc r) v (rs_fm st) in
    {| rs_r := {| r_name := r_name r; r_admin := r_admin r; r_dd := r_dd r; r_kdc := r_kdc r; r_kpw := r_kpw r; r_mkdc := s |};
       rs_fa := rs_fa st; rs_fk := rs_fk st; rs_fp := rs_fp st; rs_fm := f;
       rs_ignore := rs_ignore st; rs_c := rs_c st; rs_v4 := rs_v4 st |}
  else st.

(* one iteration of the loop of Realm.parseLines (repaired: every nested block is skipped) *)
Definition realm_line (st : rstate) (line0 : bytes) : res rstate :=
  if rs_ignore st && (0 <? rs_c st) && negb (contains_byte 123 line0) && negb (contains_byte 125 line0)
  then Ok st
  else
    let line := trim_space (strip_comment line0) in
    if is_nil line then Ok st
    else if negb (contains_byte 61 line) && negb (contains_byte 125 line) then Err invalid
    else
      let isv4 := contains S_v4_tag line in
      let ignore := rs_ignore st || isv4 in
      let v4 := rs_v4 st || isv4 in
      let c := rs_c st in
      let opens := contains_byte 123 line in
      let closes := contains_byte 125 line in
      let c1 := if opens then c + 1 else c in
      let ignore1 := ignore || opens in
      if opens && negb closes then Ok (rs_flow st ignore1 c1 v4)
      else
        let c2 := if closes then c1 - 1 else c1 in
        if closes && (c2 <? 0) then Err invalid                      (* unpaired curly brackets *)
        else if closes && ignore1 then
          (if c2 <? 1 then Ok (rs_flow st false 0 v4) else Ok (rs_flow st ignore1 c2 v4))
        else if ignore1 && (0 <? c2) then Ok (rs_flow st ignore1 c2 v4)
        else
          let p := split_byte 61 line in
          do p0 <- gindex 20 p 0;
          do p1 <- gindex 21 p 1;                                    (* the p[1] of the unrepaired panic *)
          let key := trim_space (to_lower p0) in
          let v := trim_space p1 in
          Ok (realm_relation (rs_flow st ignore1 c2 v4) key v).

Definition realm_init (name : bytes) : rstate :=
  {| rs_r := {| r_name := name; r_admin := []; r_dd := []; r_kdc := []; r_kpw := []; r_mkdc := [] |};
     rs_fa := false; rs_fk := false; rs_fp := false; rs_fm := false;
     rs_ignore := false; rs_c := 0; rs_v4 := false |}.

(* default for kpasswd_server = admin_server:464 *)
Definition kpasswd_default (r : realm) : res realm :=
  if zlen (r_kpw r) <? 1 then
    do k <- map_res (fun a => do h <- gindex 22 (split_byte 58 a) 0; Ok (h ++ S_port464)) (r_admin r);
    Ok {| r_name := r_name r; r_admin := r_admin r; r_dd := r_dd r; r_kdc := r_kdc r; r_kpw := k; r_mkdc := r_mkdc r |}
  else Ok r.

(* Realm.parseLines: the realm and whether UnsupportedDirective (v4) is reported *)
Definition realm_parse (name : bytes) (lines : list bytes) : res (realm * bool) :=
  do st <- fold_res realm_line (realm_init name) lines;
  do r <- kpasswd_default (rs_r st);
  Ok (r, rs_v4 st).

Definition has_any_of_eq_braces (l : bytes) : bool :=
  contains_byte 61 l || contains_byte 123 l || contains_byte 125 l.

(* parseRealms (repaired: one-line block, stray line and unterminated block are errors) *)
Fixpoint realms_loop (all rest : list bytes) (i : Z) (name : bytes) (start c : Z)
         (acc : list realm) (v4 : bool) : res (list realm * bool) :=
  match rest with
  | [] => if c =? 0 then Ok (acc, v4) else Err invalid
  | l0 :: rest' =>
    let l := trim_space (strip_comment l0) in
    if is_nil l then realms_loop all rest' (i + 1) name start c acc v4
    else if (c =? 0) && negb (has_any_of_eq_braces l) then Err invalid
    else
      let opens := contains_byte 123 l in
      if opens && negb (contains_byte 61 l) then Err invalid
      else
        let c1 := if opens then c + 1 else c in
        do ns <- (if opens && (c1 =? 1)
                  then do p0 <- gindex 30 (split_byte 61 l) 0; Ok (trim_space p0, i)
                  else Ok (name, start));
        let '(name1, start1) := ns in
        if contains_byte 125 l then
          if c1 <? 1 then Err invalid
          else
            let c2 := c1 - 1 in
            if c2 =? 0 then
              if start1 =? i then Err invalid
              else
                do sub <- gslice 31 all (start1 + 1) i;
                do rv <- realm_parse name1 sub;
                let '(r, rv4) := rv in
                realms_loop all rest' (i + 1) name1 start1 c2 (acc ++ [r]) (v4 || rv4)
            else realms_loop all rest' (i + 1) name1 start1 c2 acc v4
        else realms_loop all rest' (i + 1) name1 start1 c1 acc v4
  end.

Definition parse_realms (lines : list bytes) : res (list realm * bool) :=
  realms_loop lines lines 0 [] 0 0 [] false.

(* ------------------------------------------------------------------ [domain_realm] *)
Definition dmap := list (bytes * bytes).          (* newest binding first; look-up takes the first match *)

Definition dr_line (d : dmap) (line : bytes) : res dmap :=
  let line := strip_comment line in
  if is_nil (trim_space line) then Ok d
  else if negb (contains_byte 61 line) then Err invalid
  else
    let p := split_byte 61 line in
    do p0 <- gindex 40 p 0;
    do p1 <- gindex 41 p 1;
    Ok ((trim_space (to_lower p0), trim_space p1) :: d).

Definition dr_parse_lines (d : dmap) (lines : list bytes) : res dmap := fold_res dr_line d lines.

(* ------------------------------------------------------------------ Config.ResolveRealm *)
Fixpoint rr_loop (m : dmap) (h : bytes) (i : nat) (todo : nat) : res bytes :=
  match todo with
  | O => Ok []
  | S todo' =>
    let z := splitn 46 i h in
    do last <- gindex 50 z (zlen z - 1);
    match lookup (46 :: last) m with
    | Some r => Ok r
    | None => rr_loop m h (S i) todo'
    end
  end.

Definition resolve_realm (m : dmap) (name : bytes) : res bytes :=
  let h := trim_suffix name [46] in
  match lookup h m with
  | Some r => Ok r
  | None => rr_loop m h 2 (count_byte 46 h)      (* for i := 2; i <= periods; i++, periods = Count + 1 *)
  end.

(* ------------------------------------------------------------------ NewFromScanner *)
(* bufio.ScanLines *)
Definition drop_cr (l : bytes) : bytes := match rev l with 13 :: r => rev r | _ => l end.
Definition scan_lines (text : bytes) : list bytes :=
  let ls := split_byte 10 text in
  let ls := match rev ls with [] :: r => rev r | _ => ls end in
  map drop_cr ls.

(* the five regular expressions; all are anchored at the start and end in \s*, so only a prefix matters *)
Definition re_body (l : bytes) : bytes := drop_while is_re_space l.
Definition re_comment (l : bytes) : bool :=
  match re_body l with c :: _ => is_comment_char c | [] => false end.
Definition re_section (name : bytes) (l : bytes) : bool := has_prefix ([91] ++ name ++ [93]) (re_body l).
Definition re_any_section (l : bytes) : bool :=
  match re_body l with 91 :: r => contains_byte 93 r | _ => false end.

(* section kinds: 1 libdefaults, 2 realms, 3 domain_realm, 0 unknown *)
Fixpoint scan_sections (ls : list bytes) (lines : list bytes) (secs : list (Z * Z))
  : list bytes * list (Z * Z) :=
  match ls with
  | [] => (lines, secs)
  | l :: r =>
    if re_comment l then scan_sections r lines secs
    else if re_section S_libdefaults l then scan_sections r lines (secs ++ [(zlen lines, 1)])
    else if re_section S_realms l then scan_sections r lines (secs ++ [(zlen lines, 2)])
    else if re_section S_domain_realm l then scan_sections r lines (secs ++ [(zlen lines, 3)])
    else if re_any_section l then scan_sections r lines (secs ++ [(zlen lines, 0)])
    else scan_sections r (lines ++ [l]) secs
  end.

(* sections[start]: the Go map keeps the last kind stored for a start index *)
Fixpoint kind_of (start : Z) (secs : list (Z * Z)) (cur : Z) : Z :=
  match secs with
  | [] => cur
  | (s, k) :: r => kind_of start r (if s =? start then k else cur)
  end.

Record config := { c_ld : ld; c_realms : list realm; c_dr : dmap; c_v4 : bool }.

Fixpoint run_sections (allsecs todo : list (Z * Z)) (lines : list bytes) (c : config) : res config :=
  match todo with
  | [] => Ok c
  | (start, _) :: rest =>
    let stop := match rest with [] => zlen lines | (s2, _) :: _ => s2 end in
    do sub <- gslice 60 lines start stop;
    let k := kind_of start allsecs 0 in
    if k =? 1 then
      do l <- ld_parse_lines (c_ld c) sub;
      run_sections allsecs rest lines {| c_ld := l; c_realms := c_realms c; c_dr := c_dr c; c_v4 := c_v4 c |}
    else if k =? 2 then
      do rv <- parse_realms sub;
      let '(rs, v4) := rv in
      run_sections allsecs rest lines {| c_ld := c_ld c; c_realms := rs; c_dr := c_dr c; c_v4 := c_v4 c || v4 |}
    else if k =? 3 then
      do d <- dr_parse_lines (c_dr c) sub;
      run_sections allsecs rest lines {| c_ld := c_ld c; c_realms := c_realms c; c_dr := d; c_v4 := c_v4 c |}
    else run_sections allsecs rest lines c
  end.

(* the enctype ids are recomputed at the end of LibDefaults.parseLines; they are a function of the lists and
   allow_weak_crypto, so the model computes them when it renders the result *)
Definition max_text : Z := 60000.

Definition parse_config (client_keytab k5login_dir text : bytes) : res config :=
  if negb (is_ascii text) || (max_text <=? zlen text) then Err unmodelled
  else
    let '(lines, secs) := scan_sections (scan_lines text) [] [] in
    run_sections secs secs lines
      {| c_ld := ld_init client_keytab k5login_dir; c_realms := []; c_dr := []; c_v4 := false |}.

(* ------------------------------------------------------------------ jv interface *)
Definition junmodelled : jv := JL [JI (-4)].

Definition jres' {A} (f : A -> list jv) (r : res A) : jv :=
  match r with
  | Ok a => jok (f a)
  | Err c => if c =? unmodelled then junmodelled else jerr
  | Panic _ => jpanic
  end.

Definition j_strs (l : list bytes) : jv := JL (map JB l).
Definition j_ints (l : list Z) : jv := JL (map JI l).

(* durations travel as ( high low ) 32-bit halves: the driver prints 63-bit OCaml integers *)
Definition j_dur (d : Z) : jv := JL [JI (d / 2 ^ 32); JI (d mod 2 ^ 32)].

Definition j_lval (v : lval) : jv :=
  match v with
  | VB b => jbool b | VZ z => JI z | VS s => JB s | VL l => j_strs l | VZs l => j_ints l
  end.

Definition ld_get_bool (k : bytes) (l : ld) : bool :=
  match lookup k l with Some (VB b) => b | _ => false end.
Definition ld_get_list (k : bytes) (l : ld) : list bytes :=
  match lookup k l with Some (VL x) => x | _ => [] end.

(* fields in the order of [ld_init], then the three id lists *)
Definition j_ld (l : ld) : jv :=
  let w := ld_get_bool S_allow_weak_crypto l in
  JL (map (fun '(k, _) => match lookup k l, lookup k ld_keys with
                          | Some (VZ d), Some KDur => j_dur d
                          | Some v, _ => j_lval v
                          | None, _ => jbad
                          end)
          (ld_init [] [])
      ++ [ j_ints (parse_etypes (ld_get_list S_default_tgs_enctypes l) w);
           j_ints (parse_etypes (ld_get_list S_default_tkt_enctypes l) w);
           j_ints (parse_etypes (ld_get_list S_permitted_enctypes l) w) ]).

Definition j_realm (r : realm) : jv :=
  JL [JB (r_name r); j_strs (r_admin r); JB (r_dd r); j_strs (r_kdc r); j_strs (r_kpw r); j_strs (r_mkdc r)].

(* canonical form of the domain map: first binding of each key, keys in byte order *)
Fixpoint bytes_leb (a b : bytes) : bool :=
  match a, b with
  | [], _ => true
  | _ :: _, [] => false
  | x :: a', y :: b' => if x <? y then true else if y <? x then false else bytes_leb a' b'
  end.
Fixpoint dm_insert (kv : bytes * bytes) (l : dmap) : dmap :=
  match l with
  | [] => [kv]
  | kv' :: r => if beq_bytes (fst kv) (fst kv') then l
                else if bytes_leb (fst kv) (fst kv') then kv :: l else kv' :: dm_insert kv r
  end.
(* inserting the bindings oldest first would let old ones win, so insert newest first and never replace *)
Definition dm_canon (d : dmap) : dmap := fold_left (fun acc kv => dm_insert kv acc) d [].

Definition j_dmap (d : dmap) : jv := JL (map (fun '(k, v) => JL [JB k; JB v]) (dm_canon d)).

Definition j_config (c : config) : list jv :=
  [jbool (c_v4 c); j_ld (c_ld c); JL (map j_realm (c_realms c)); j_dmap (c_dr c)].

Definition c16_parse_j (j : jv) : jv :=
  match j with
  | JL [JB ck; JB kd; JB text] => jres' j_config (parse_config ck kd text)
  | _ => jbad
  end.

Definition un_dmap (l : list jv) : option dmap :=
  map_opt (fun e => match e with JL [JB k; JB v] => Some (k, v) | _ => None end) l.

(* ( ( (key realm) ... ) ( host ... ) ) -> ( result ... ), each result ( 0 realm ) or panic *)
Definition c16_resolve_j (j : jv) : jv :=
  match j with
  | JL [JL m; JL hosts] =>
    match un_dmap m, map_opt as_bytes hosts with
    | Some m', Some hs => JL (map (fun h => jres' (fun r => [JB r]) (resolve_realm m' h)) hs)
    | _, _ => jbad
    end
  | _ => jbad
  end.

Definition c16_bool_j (j : jv) : jv :=
  match j with
  | JB s => if is_ascii s then jres' (fun b => [jbool b]) (parse_boolean s) else junmodelled
  | _ => jbad
  end.

Definition c16_dur_j (j : jv) : jv :=
  match j with
  | JB s => if is_ascii s then jres' (fun d => [j_dur d]) (parse_duration s) else junmodelled
  | _ => jbad
  end.

Definition c16_etypes_j (j : jv) : jv :=
  match j with
  | JL [JL names; JI w] =>
    match map_opt as_bytes names with
    | Some ns => jok [j_ints (parse_etypes ns (negb (w =? 0)))]
    | None => jbad
    end
  | _ => jbad
  end.

(* appendUntilFinal applied to a sequence of values, starting from an empty list *)
Definition c16_auf_j (j : jv) : jv :=
  match j with
  | JL vals =>
    match map_opt as_bytes vals with
    | Some vs => let '(s, f) := fold_left (fun '(s, f) v => append_until_final s v f) vs ([], false) in
                 jok [j_strs s; jbool f]
    | None => jbad
    end
  | _ => jbad
  end.
