(* Gokrb5.model.GSSToken — code-shaped model of v8/gssapi/wrapToken.go and MICToken.go (RFC 4121 4.2.6).
   The keyed checksum is a section variable here (checksum key-type key-value usage data = Some bytes | None
   for an unknown etype); the executable instance is model/Checksum.v (property C07). *)
From Gokrb5.lib Require Import Bytes JV.

(* Go's copy(dst[off:], src): copies min(len(dst)-off, len(src)) bytes; off <= len(dst) in all uses. *)
Definition copy_at (dst : bytes) (off : nat) (src : bytes) : bytes :=
  let n := Nat.min (length dst - off) (length src) in
  firstn off dst ++ firstn n src ++ skipn (off + n) dst.

Definition zeros (n : nat) : bytes := repeatz 0 n.

Record wrap_token := mkWrap {
  wt_flags : Z; wt_ec : Z; wt_rrc : Z; wt_seq : Z; wt_payload : bytes; wt_cksum : bytes }.
Record mic_token := mkMic {
  mt_flags : Z; mt_seq : Z; mt_payload : bytes; mt_cksum : bytes }.

(* ---- Wrap token ---- *)

(* Marshal: make(16+len(payload)+EC) then field writes and two copies (nil checks are the harness's
   business: the model only sees non-nil payload and checksum). *)
Definition wrap_marshal (t : wrap_token) : bytes :=
  let chk_off := (16 + length (wt_payload t))%nat in
  let b0 := zeros (chk_off + Z.to_nat (wt_ec t)) in
  let b1 := copy_at b0 0 [5; 4] in
  let b2 := copy_at b1 2 [wrap 8 (wt_flags t)] in
  let b3 := copy_at b2 3 [255] in
  let b4 := copy_at b3 4 (be_bytes 2 (wt_ec t)) in
  let b5 := copy_at b4 6 (be_bytes 2 (wt_rrc t)) in
  let b6 := copy_at b5 8 (be_bytes 8 (wt_seq t)) in
  let b7 := copy_at b6 16 (wt_payload t) in
  copy_at b7 chk_off (wt_cksum t).

Definition wrap_cksum_header (flags seq : Z) : bytes :=
  copy_at (copy_at (zeros 16) 0 [5; 4; wrap 8 flags; 255; 0; 0; 0; 0]) 8 (be_bytes 8 seq).

Definition wrap_cksum_input (t : wrap_token) : bytes :=
  copy_at (copy_at (zeros (16 + length (wt_payload t))) 0 (wt_payload t))
          (length (wt_payload t)) (wrap_cksum_header (wt_flags t) (wt_seq t)).

Definition wrap_unmarshal (b : bytes) (expect_acceptor : bool) : res wrap_token :=
  if (length b <? 16)%nat then Err 1
  else if negb (beq_bytes (slice b 0 2) [5; 4]) then Err 2
  else
    let flags := nth 2 b 0 in
    let from_acc := Z.land flags 1 =? 1 in
    if from_acc && negb expect_acceptor then Err 3
    else if negb from_acc && expect_acceptor then Err 4
    else if negb (nth 3 b 0 =? 255) then Err 5
    else
      let ec := be_val (slice b 4 6) in
      if zlen b - 16 <? ec then Err 6
      else Ok (mkWrap flags ec (be_val (slice b 6 8)) (be_val (slice b 8 16))
                      (slice b 16 (zlen b - ec)) (slice b (zlen b - ec) (zlen b))).

(* ---- MIC token ---- *)

Definition mic_header (flags seq : Z) : bytes :=
  let h0 := zeros 16 in
  let h1 := copy_at h0 0 [4; 4] in
  let h2 := copy_at h1 2 [wrap 8 flags] in
  let h3 := copy_at h2 3 [255; 255; 255; 255; 255] in
  copy_at h3 8 (be_bytes 8 seq).

Definition mic_marshal (t : mic_token) : bytes :=
  let b0 := zeros (16 + length (mt_cksum t)) in
  copy_at (copy_at b0 0 (mic_header (mt_flags t) (mt_seq t))) 16 (mt_cksum t).

Definition mic_cksum_input (t : mic_token) : bytes :=
  copy_at (copy_at (zeros (16 + length (mt_payload t))) 0 (mt_payload t))
          (length (mt_payload t)) (mic_header (mt_flags t) (mt_seq t)).

(* Unmarshal leaves Payload untouched (the payload is not transmitted): returns flags, seq, checksum *)
Definition mic_unmarshal (b : bytes) (expect_acceptor : bool) : res (Z * Z * bytes) :=
  if (length b <? 16)%nat then Err 1
  else if negb (beq_bytes (slice b 0 2) [4; 4]) then Err 2
  else
    let flags := nth 2 b 0 in
    let from_acc := negb (Z.land flags 1 =? 0) in
    if from_acc && negb expect_acceptor then Err 3
    else if negb from_acc && expect_acceptor then Err 4
    else if negb (beq_bytes (slice b 3 8) [255; 255; 255; 255; 255]) then Err 5
    else Ok (flags, be_val (slice b 8 16), slice b 16 (zlen b)).

(* ---- checksum computation and verification, parametric in the keyed checksum ---- *)
Section Keyed.
  Variable checksum : Z -> bytes -> Z -> bytes -> option bytes.   (* etype, key, usage, data *)

  Definition wrap_compute (t : wrap_token) (etype : Z) (key : bytes) (usage : Z) : option bytes :=
    checksum etype key usage (wrap_cksum_input t).
  (* (bool, error): Some true = verified; Some false = mismatch; None = checksum could not be computed *)
  Definition wrap_verify (t : wrap_token) (etype : Z) (key : bytes) (usage : Z) : option bool :=
    match wrap_compute t etype key usage with
    | Some c => Some (beq_bytes c (wt_cksum t))
    | None => None
    end.
  Definition mic_compute (t : mic_token) (etype : Z) (key : bytes) (usage : Z) : option bytes :=
    checksum etype key usage (mic_cksum_input t).
  Definition mic_verify (t : mic_token) (etype : Z) (key : bytes) (usage : Z) : option bool :=
    match mic_compute t etype key usage with
    | Some c => Some (beq_bytes c (mt_cksum t))
    | None => None
    end.
End Keyed.

(* ---- RFC 4121 4.2.6 layouts as specification functions ---- *)
Definition wrap_layout (t : wrap_token) : bytes :=
  [5; 4; wt_flags t; 255] ++ be_bytes 2 (wt_ec t) ++ be_bytes 2 (wt_rrc t) ++ be_bytes 8 (wt_seq t)
  ++ wt_payload t ++ wt_cksum t.
Definition mic_layout (t : mic_token) : bytes :=
  [4; 4; mt_flags t; 255; 255; 255; 255; 255] ++ be_bytes 8 (mt_seq t) ++ mt_cksum t.
Definition wrap_signed_data (t : wrap_token) : bytes :=
  wt_payload t ++ [5; 4; wt_flags t; 255; 0; 0; 0; 0] ++ be_bytes 8 (wt_seq t).
Definition mic_signed_data (t : mic_token) : bytes :=
  mt_payload t ++ [4; 4; mt_flags t; 255; 255; 255; 255; 255] ++ be_bytes 8 (mt_seq t).

(* ---- jv interface ---- *)
Definition j_wrap (t : wrap_token) : list jv :=
  [JI (wt_flags t); JI (wt_ec t); JI (wt_rrc t); JB (be_bytes 8 (wt_seq t)); JB (wt_payload t); JB (wt_cksum t)].
Definition un_wrap (j : jv) : option wrap_token :=
  match j with
  | JL [JI f; JI ec; JI rrc; JB seq; JB p; JB c] => Some (mkWrap f ec rrc (be_val seq) p c)
  | _ => None
  end.
Definition wrap_marshal_j (j : jv) : jv :=
  match un_wrap j with Some t => jok [JB (wrap_marshal t)] | None => jbad end.
Definition wrap_unmarshal_j (j : jv) : jv :=
  match j with
  | JL [JB b; JI acc] => jres j_wrap (wrap_unmarshal b (acc =? 1))
  | _ => jbad
  end.
Definition wrap_input_j (j : jv) : jv :=
  match un_wrap j with Some t => jok [JB (wrap_cksum_input t)] | None => jbad end.
Definition un_mic (j : jv) : option mic_token :=
  match j with
  | JL [JI f; JB seq; JB p; JB c] => Some (mkMic f (be_val seq) p c)
  | _ => None
  end.
Definition mic_marshal_j (j : jv) : jv :=
  match un_mic j with Some t => jok [JB (mic_marshal t)] | None => jbad end.
Definition mic_unmarshal_j (j : jv) : jv :=
  match j with
  | JL [JB b; JI acc] =>
    jres (fun '(f, s, c) => [JI f; JB (be_bytes 8 s); JB c]) (mic_unmarshal b (acc =? 1))
  | _ => jbad
  end.
Definition mic_input_j (j : jv) : jv :=
  match un_mic j with Some t => jok [JB (mic_cksum_input t)] | None => jbad end.
