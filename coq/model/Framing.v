(* Gokrb5.model.Framing — the parts of the SPNEGO / GSS-API wire format that are not SEQUENCE-shaped and that
   gokrb5 therefore assembles by hand (v8/spnego/negotiationToken.go, spnego.go, krb5Token.go,
   messages.MarshalTicketSequence), on top of the schema codec:
     NegotiationToken ::= CHOICE { negTokenInit [0] NegTokenInit, negTokenResp [1] NegTokenResp }      (RFC 4178 4.2)
       NegTokenInit.Marshal / NegTokenResp.Marshal: RawValue{Class 2, compound, Tag 0|1, Bytes: SEQUENCE}
     InitialContextToken ::= [APPLICATION 0] IMPLICIT SEQUENCE { thisMech OID, innerContextToken ANY } (RFC 2743 3.1)
       SPNEGOToken.Marshal (init): AddASNAppTag(Marshal(OID 1.3.6.1.5.5.2) ++ NegTokenInit bytes, 0)
       KRB5Token.Marshal:          AddASNAppTag(Marshal(OID 1.2.840.113554.1.2.2) ++ tok-id ++ AP-REQ bytes, 0)
   Decoding is the strict inverse (the independent reader). *)
From Gokrb5.lib Require Import Bytes JV.
From Gokrb5.model Require Import Schema DER DERCodec.

(* ---- CHOICE alternative [n] EXPLICIT t ---- *)
Definition choice_encode (n : Z) (t : ty) (v : value) : option bytes :=
  if tag_ok n then match encode t v with Some b => Some (tlv (ident 2 true n) b) | None => None end
  else None.

(* alts: the alternatives by tag number; returns the alternative taken and its value *)
Fixpoint alt_lookup (alts : list (Z * ty)) (id : Z) : option (Z * ty) :=
  match alts with
  | [] => None
  | (n, t) :: r => if ident 2 true n =? id then Some (n, t) else alt_lookup r id
  end.

Definition choice_decode (alts : list (Z * ty)) (b : bytes) : option (Z * value) :=
  match parse_tlv b with
  | Some (id, body, []) =>
    match alt_lookup alts id with
    | Some (n, t) => match decode_top t body with Some v => Some (n, v) | None => None end
    | None => None
    end
  | _ => None
  end.

(* ---- GSS-API initial context token framing ---- *)
Definition gss_frame (mech : list Z) (inner : bytes) : option bytes :=
  match enc_oid mech with
  | Some o => Some (tlv (ident 1 true 0) (tlv 6 o ++ inner))
  | None => None
  end.

Definition gss_unframe (b : bytes) : option (list Z * bytes) :=
  match parse_tlv b with
  | Some (id, body, []) =>
    if id =? ident 1 true 0 then
      match parse_tlv body with
      | Some (6, o, inner) => match dec_oid o with Some mech => Some (mech, inner) | None => None end
      | _ => None
      end
    else None
  | _ => None
  end.

(* KRB5 mechanism token: inner = TOK_ID (2 octets) ++ message *)
Definition krb5_inner (tok_id msg : bytes) : bytes := tok_id ++ msg.
Definition krb5_split (inner : bytes) : option (bytes * bytes) :=
  match inner with a :: b :: r => Some ([a; b], r) | _ => None end.

(* ---- jv entry points ----
   choice_encode : ( in ty value )                -> ( 0 xbytes ) | err
   choice_decode : ( ( ( in ty ) .. ) xbytes )    -> ( 0 in value ) | err
   gss_frame     : ( ( iarc .. ) xinner )         -> ( 0 xbytes ) | err
   gss_unframe   : xbytes                         -> ( 0 ( iarc .. ) xinner ) | err
   krb5_token    : ( ( iarc .. ) xtokid xmsg )    -> ( 0 xbytes ) | err        (frame of tok-id ++ msg)
   krb5_untoken  : xbytes                         -> ( 0 ( iarc .. ) xtokid xmsg ) | err *)
Definition choice_encode_j (j : jv) : jv :=
  match j with
  | JL [JI n; tyj; valj] =>
    match un_ty (jv_depth tyj) tyj, un_value (jv_depth valj) valj with
    | Some t, Some v => match choice_encode n t v with Some b => jok [JB b] | None => jerr end
    | _, _ => jbad
    end
  | _ => jbad
  end.

Definition un_alt (j : jv) : option (Z * ty) :=
  match j with
  | JL [JI n; tyj] => match un_ty (jv_depth tyj) tyj with Some t => Some (n, t) | None => None end
  | _ => None
  end.

Definition choice_decode_j (j : jv) : jv :=
  match j with
  | JL [JL altsj; JB b] =>
    match map_opt un_alt altsj with
    | Some alts => match choice_decode alts b with Some (n, v) => jok [JI n; j_value v] | None => jerr end
    | None => jbad
    end
  | _ => jbad
  end.

Definition gss_frame_j (j : jv) : jv :=
  match j with
  | JL [JL arcsj; JB inner] =>
    match map_opt as_int arcsj with
    | Some mech => match gss_frame mech inner with Some b => jok [JB b] | None => jerr end
    | None => jbad
    end
  | _ => jbad
  end.

Definition gss_unframe_j (j : jv) : jv :=
  match j with
  | JB b => match gss_unframe b with Some (mech, inner) => jok [JL (map JI mech); JB inner] | None => jerr end
  | _ => jbad
  end.

Definition krb5_token_j (j : jv) : jv :=
  match j with
  | JL [JL arcsj; JB tok; JB msg] =>
    match map_opt as_int arcsj with
    | Some mech => match gss_frame mech (krb5_inner tok msg) with Some b => jok [JB b] | None => jerr end
    | None => jbad
    end
  | _ => jbad
  end.

Definition krb5_untoken_j (j : jv) : jv :=
  match j with
  | JB b =>
    match gss_unframe b with
    | Some (mech, inner) =>
      match krb5_split inner with
      | Some (tok, msg) => jok [JL (map JI mech); JB tok; JB msg]
      | None => jerr
      end
    | None => jerr
    end
  | _ => jbad
  end.
