(* Gokrb5.model.Hosts — v8/config/hosts.go: randServOrder, Config.GetKDCs, Config.GetKpasswdServers
   (repaired code, fix-2 of agentwork/c16: the shuffle works on a copy).

   math/rand is an explicit oracle: the list of values returned by the successive rand.Intn(l) calls (a
   value outside [0, l) is reduced modulo l, so every list is a valid oracle; a missing value reads as 0).
   The slice handed to randServOrder is the one stored in the configuration, so the model threads the
   contents of that backing array through the call: every function returns the array as it is afterwards.
   The DNS SRV branches are not modelled (Err unmodelled). *)
From Coq Require Import String.
From Gokrb5.lib Require Import Bytes JV GoString.
From Gokrb5.model Require Import Krb5Conf.
Open Scope Z_scope.

Fixpoint set_nth {A} (i : nat) (x : A) (l : list A) : list A :=
  match l, i with
  | [], _ => []
  | _ :: r, O => x :: r
  | y :: r, S i' => y :: set_nth i' x r
  end.

(* the loop of randServOrder on the slice [cur] (length n) whose backing array continues with [tail]:
   returns the values stored under the keys i, i+1, ... and the final contents of the backing array *)
Fixpoint rso_loop (n : nat) (cur tail : list bytes) (oracle : list Z) : res (list bytes * list bytes) :=
  match n with
  | O => Ok ([], cur ++ tail)
  | S n' =>
    let l := zlen cur in
    let '(o, oracle') := match oracle with o :: r => (o, r) | [] => (0, []) end in
    let ri := o mod l in
    do v <- gindex 70 cur ri;                                  (* kdcs[i] = ks[ri] *)
    if 1 <? l then
      do lastv <- gindex 71 cur (l - 1);
      (* ks[len(ks)-1], ks[ri] = ks[ri], ks[len(ks)-1]; ks = ks[:len(ks)-1] *)
      let cur' := removelast (set_nth (Z.to_nat ri) lastv cur) in
      do r <- rso_loop n' cur' (v :: tail) oracle';
      Ok (v :: fst r, snd r)
    else Ok ([v], cur ++ tail)
  end.

(* randServOrder before the repair: works directly on the caller's slice *)
Definition rand_serv_order_unrepaired (servers : list bytes) (oracle : list Z) : res (list bytes * list bytes) :=
  if 1 <? zlen servers then rso_loop (length servers) servers [] oracle
  else do v <- gindex 72 servers 0; Ok ([v], servers).

(* randServOrder: (values of the keys 1..n, the caller's slice afterwards) *)
Definition rand_serv_order (servers : list bytes) (oracle : list Z) : res (list bytes * list bytes) :=
  let ks := servers in                                         (* make + copy *)
  if 1 <? zlen ks then do r <- rso_loop (length ks) ks [] oracle; Ok (fst r, servers)
  else do v <- gindex 72 ks 0; Ok ([v], servers).

(* the map[int]string that is returned: keys from 1 *)
Fixpoint numbered (i : Z) (l : list bytes) : list (Z * bytes) :=
  match l with [] => [] | v :: r => (i, v) :: numbered (i + 1) r end.

Record hcfg := { h_default_realm : bytes; h_dns_lookup_kdc : bool; h_realms : list realm }.

Definition with_kdc (r : realm) (k : list bytes) : realm :=
  {| r_name := r_name r; r_admin := r_admin r; r_dd := r_dd r; r_kdc := k; r_kpw := r_kpw r; r_mkdc := r_mkdc r |}.
Definition with_kpw (r : realm) (k : list bytes) : realm :=
  {| r_name := r_name r; r_admin := r_admin r; r_dd := r_dd r; r_kdc := r_kdc r; r_kpw := k; r_mkdc := r_mkdc r |}.

(* GetKDCs takes the list of the LAST realm entry with the name (the loop has no break) *)
Definition last_kdcs (rname : bytes) (rs : list realm) : list bytes :=
  fold_left (fun ks r => if beq_bytes (r_name r) rname then r_kdc r else ks) rs [].

(* write [k] back into the KDC list of the last entry named [realm] *)
Fixpoint set_last_kdcs (rname : bytes) (k : list bytes) (rs : list realm) : list realm * bool :=
  match rs with
  | [] => ([], false)
  | r :: rest =>
    let '(rest', done) := set_last_kdcs rname k rest in
    if done then (r :: rest', true)
    else if beq_bytes (r_name r) rname then (with_kdc r k :: rest', true)
    else (r :: rest', false)
  end.

Definition get_kdcs (c : hcfg) (rname : bytes) (oracle : list Z) : res (Z * list (Z * bytes) * hcfg) :=
  let rname := if is_nil rname then h_default_realm c else rname in
  let ks := last_kdcs rname (h_realms c) in
  let count := zlen ks in
  if 0 <? count then
    do r <- rand_serv_order ks oracle;
    Ok (count, numbered 1 (fst r),
        {| h_default_realm := h_default_realm c; h_dns_lookup_kdc := h_dns_lookup_kdc c;
           h_realms := fst (set_last_kdcs rname (snd r) (h_realms c)) |})
  else if negb (h_dns_lookup_kdc c) then Err invalid
  else Err unmodelled.

(* net.SplitHostPort for host:port without brackets *)
Definition split_host_port (s : bytes) : res (option bytes) :=
  if contains_byte 91 s || contains_byte 93 s then Err unmodelled
  else match split_byte 58 s with
       | [h; _] => Ok (Some h)
       | _ => Ok None
       end.

Fixpoint first_realm (rname : bytes) (rs : list realm) : option realm :=
  match rs with
  | [] => None
  | r :: rest => if beq_bytes (r_name r) rname then Some r else first_realm rname rest
  end.

Fixpoint set_first_kpw (rname : bytes) (k : list bytes) (rs : list realm) : list realm :=
  match rs with
  | [] => []
  | r :: rest => if beq_bytes (r_name r) rname then with_kpw r k :: rest else r :: set_first_kpw rname k rest
  end.

Fixpoint admin_to_kpasswd (ka : list bytes) : res (list bytes) :=
  match ka with
  | [] => Ok []
  | k :: r => do h <- split_host_port k; do t <- admin_to_kpasswd r;
              match h with Some h => Ok ((h ++ S_port464) :: t) | None => Ok t end
  end.

(* GetKpasswdServers takes the FIRST realm entry with the name (break) *)
Definition get_kpasswd_servers (c : hcfg) (rname : bytes) (oracle : list Z) : res (Z * list (Z * bytes) * hcfg) :=
  if h_dns_lookup_kdc c then Err unmodelled
  else
    let '(ks, ka) := match first_realm rname (h_realms c) with
                     | Some r => (r_kpw r, r_admin r) | None => ([], []) end in
    if zlen ks <? 1 then
      do ks' <- admin_to_kpasswd ka;                            (* a fresh slice: no aliasing *)
      if zlen ks' <? 1 then Err invalid
      else do r <- rand_serv_order ks' oracle; Ok (zlen ks', numbered 1 (fst r), c)
    else
      do r <- rand_serv_order ks oracle;
      Ok (zlen ks, numbered 1 (fst r),
          {| h_default_realm := h_default_realm c; h_dns_lookup_kdc := h_dns_lookup_kdc c;
             h_realms := set_first_kpw rname (snd r) (h_realms c) |}).

(* ------------------------------------------------------------------ jv interface *)
Definition un_realm (j : jv) : option realm :=
  match j with
  | JL [JB n; JL a; JB dd; JL k; JL p; JL m] =>
    match map_opt as_bytes a, map_opt as_bytes k, map_opt as_bytes p, map_opt as_bytes m with
    | Some a', Some k', Some p', Some m' =>
      Some {| r_name := n; r_admin := a'; r_dd := dd; r_kdc := k'; r_kpw := p'; r_mkdc := m' |}
    | _, _, _, _ => None
    end
  | _ => None
  end.

Definition un_hcfg (j : jv) : option hcfg :=
  match j with
  | JL [JB dr; JI dns; JL rs] =>
    match map_opt un_realm rs with
    | Some rs' => Some {| h_default_realm := dr; h_dns_lookup_kdc := negb (dns =? 0); h_realms := rs' |}
    | None => None
    end
  | _ => None
  end.

Definition j_lookup (r : Z * list (Z * bytes) * hcfg) : list jv :=
  let '(count, m, c) := r in
  [JI count; JL (map (fun '(k, v) => JL [JI k; JB v]) m); JL (map j_realm (h_realms c))].

(* ( ( servers ) ( oracle ) ) -> ( 0 ( values of keys 1..n ) ( the argument slice afterwards ) ) *)
Definition c16_rso_j (j : jv) : jv :=
  match j with
  | JL [JL ks; JL o] =>
    match map_opt as_bytes ks, map_opt as_int o with
    | Some ks', Some o' => jres' (fun r => [j_strs (fst r); j_strs (snd r)]) (rand_serv_order ks' o')
    | _, _ => jbad
    end
  | _ => jbad
  end.

(* ( cfg realm ( oracle ) ) -> ( 0 count ( (key value) ... ) ( realms afterwards ) ) *)
Definition c16_getkdcs_j (j : jv) : jv :=
  match j with
  | JL [c; JB realm; JL o] =>
    match un_hcfg c, map_opt as_int o with
    | Some c', Some o' => jres' j_lookup (get_kdcs c' realm o')
    | _, _ => jbad
    end
  | _ => jbad
  end.

Definition c16_getkpasswd_j (j : jv) : jv :=
  match j with
  | JL [c; JB realm; JL o] =>
    match un_hcfg c, map_opt as_int o with
    | Some c', Some o' => jres' j_lookup (get_kpasswd_servers c' realm o')
    | _, _ => jbad
    end
  | _ => jbad
  end.
