(* Gokrb5.model.Flags — code-shaped model of v8/types/KerberosFlags.go: SetFlag, UnsetFlag, IsFlagSet on an
   asn1.BitString (Bytes, BitLength).  Go semantics made explicit:
   * `b := i / 8` truncates towards zero (Z.quot), `i - 8*b` is Z.rem i 8;
   * `1 << p` has type byte: it is 0 when p >= 8 (only for negative i);
   * `f.Bytes[b]` panics (index out of range) when b < 0 or b >= len(f.Bytes);
   * SetFlag / UnsetFlag first pad the byte slice to 4 bytes with zeros (BitLength becomes 8*len each time a
     byte is appended) — they still panic for i >= 8*max(4, len);
   * IsFlagSet does NOT pad.  On the pinned tree it indexes unconditionally (is_flag_set_orig: Panic on a
     flag word shorter than the bit tested, e.g. a decoded EncTicketPart / EncKDCRepPart whose BIT STRING has
     fewer than 4 bytes); the repaired code (fix-2) returns false for i < 0 or b >= len (is_flag_set). *)
From Gokrb5.lib Require Import Bytes JV.

Record bitstring := mkBits { bs_bytes : bytes; bs_bitlen : Z }.

Definition site_flag_index : Z := 5.

(* for l := len(f.Bytes); l < 4; l++ { f.Bytes = append(f.Bytes, 0); f.BitLength = len(f.Bytes)*8 } *)
Fixpoint pad_loop (n : nat) (f : bitstring) : bitstring :=
  match n with
  | O => f
  | S n' => let b := bs_bytes f ++ [0] in pad_loop n' (mkBits b (zlen b * 8))
  end.
Definition pad4 (f : bitstring) : bitstring := pad_loop (4 - length (bs_bytes f)) f.

Definition byte_ix (i : Z) : Z := Z.quot i 8.
Definition bit_mask (i : Z) : Z :=
  let p := 7 - (i - 8 * byte_ix i) in
  if p <? 8 then 2 ^ p else 0.                     (* byte(1) << p *)

(* f.Bytes[b] = g(f.Bytes[b]) *)
Fixpoint upd_nat (l : bytes) (n : nat) (g : Z -> Z) : option bytes :=
  match l, n with
  | [], _ => None
  | x :: r, O => Some (g x :: r)
  | x :: r, S n' => match upd_nat r n' g with Some r' => Some (x :: r') | None => None end
  end.
Definition update_at (l : bytes) (b : Z) (g : Z -> Z) : res bytes :=
  if b <? 0 then Panic site_flag_index
  else match upd_nat l (Z.to_nat b) g with Some l' => Ok l' | None => Panic site_flag_index end.

Definition set_flag (f : bitstring) (i : Z) : res bitstring :=
  let f' := pad4 f in
  do bs <- update_at (bs_bytes f') (byte_ix i) (fun x => Z.lor x (bit_mask i));
  Ok (mkBits bs (bs_bitlen f')).

Definition unset_flag (f : bitstring) (i : Z) : res bitstring :=
  let f' := pad4 f in
  do bs <- update_at (bs_bytes f') (byte_ix i) (fun x => Z.ldiff x (bit_mask i));       (* x &^ mask *)
  Ok (mkBits bs (bs_bitlen f')).

(* the pinned tree *)
Definition is_flag_set_orig (f : bitstring) (i : Z) : res bool :=
  do x <- gindex site_flag_index (bs_bytes f) (byte_ix i);
  Ok (negb (Z.land x (bit_mask i) =? 0)).

(* the repaired code: if i < 0 || b >= len(f.Bytes) { return false } *)
Definition is_flag_set (f : bitstring) (i : Z) : res bool :=
  if (i <? 0) || (zlen (bs_bytes f) <=? byte_ix i) then Ok false
  else is_flag_set_orig f i.

(* SetFlags / UnsetFlags: for _, i := range j { SetFlag(f, i) } *)
Fixpoint set_flags (f : bitstring) (js : list Z) : res bitstring :=
  match js with [] => Ok f | i :: r => do f' <- set_flag f i; set_flags f' r end.

(* KDCReqBody.Unmarshal (repaired, fix-3) widens kdc-options shorter than 4 bytes the same way: zero bytes
   AFTER the bytes received, BitLength = 8 * len.  The pinned tree put them in front (pad4_front), which moves
   every transmitted flag by 8 * (4 - len) positions. *)
Definition kdc_options_widen (f : bitstring) : bitstring :=
  if (length (bs_bytes f) <? 4)%nat
  then let b := bs_bytes f ++ repeatz 0 (4 - length (bs_bytes f)) in mkBits b (zlen b * 8)
  else f.
Definition pad4_front (f : bitstring) : bitstring :=
  if (length (bs_bytes f) <? 4)%nat
  then let b := repeatz 0 (4 - length (bs_bytes f)) ++ bs_bytes f in mkBits b (zlen b * 8)
  else f.

(* ---- jv entry points:  ( xbytes ibitlen iflag ) -> ( 0 xbytes ibitlen ) | ( 0 ibool ) | panic ---- *)
Definition jbits (f : bitstring) : list jv := [JB (bs_bytes f); JI (bs_bitlen f)].
Definition set_flag_j (j : jv) : jv :=
  match j with JL [JB b; JI n; JI i] => jres jbits (set_flag (mkBits b n) i) | _ => jbad end.
Definition unset_flag_j (j : jv) : jv :=
  match j with JL [JB b; JI n; JI i] => jres jbits (unset_flag (mkBits b n) i) | _ => jbad end.
Definition is_flag_set_j (j : jv) : jv :=
  match j with JL [JB b; JI n; JI i] => jres (fun r => [jbool r]) (is_flag_set (mkBits b n) i) | _ => jbad end.
Definition kdc_options_widen_j (j : jv) : jv :=
  match j with JL [JB b; JI n] => jok (jbits (kdc_options_widen (mkBits b n))) | _ => jbad end.
Definition is_flag_set_orig_j (j : jv) : jv :=
  match j with JL [JB b; JI n; JI i] => jres (fun r => [jbool r]) (is_flag_set_orig (mkBits b n) i) | _ => jbad end.
