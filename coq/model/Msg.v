(* Gokrb5.model.Msg — code-shaped models of the places where gokrb5 assembles message bytes by hand around
   gofork's reflective marshaller (v8/messages/Ticket.go):
     Ticket.Marshal            pinned tree:  asn1.Marshal of the struct t points to — the WHOLE struct, whose fifth field
                                             `DecryptedEncPart EncTicketPart asn1:"optional"` is written as soon
                                             as it differs from the zero value — then AddASNAppTag(b, 1);
                               repaired:     asn1.Marshal of a copy holding only the four wire fields.
     MarshalTicketSequence     0x30, asn1tools.MarshalLengthBytes(len), the tickets' Marshal bytes concatenated;
                               nothing at all for an empty list.
   A ticket is its four wire components (as `option value` slots of the SEQUENCE) plus the decrypted part
   (None = zero value, i.e. never decrypted).  The schemas are the RFC ones: conform/ConfSchemas.v shows the
   generated gen_Ticket / gen_EncTicketPart are these very terms. *)
From Gokrb5.lib Require Import Bytes JV.
From Gokrb5.model Require Import Schema DER DERCodec RFCSchemas LenOctets.

Definition ticket_fields : list field :=
  match rfc_Ticket with TApp _ (TSeq fs) => fs | _ => [] end.
(* the struct EncTicketPart as gofork marshals it when it is a FIELD: a plain SEQUENCE, no APPLICATION tag *)
Definition enc_ticket_part_seq : ty :=
  match rfc_EncTicketPart with TApp _ t => t | _ => TRaw end.
(* what asn1.Marshal sees in messages.Ticket: four tagged fields and the untagged optional fifth *)
Definition go_ticket_struct : ty := TSeq (ticket_fields ++ [(None, true, enc_ticket_part_seq)]).

Record ticket := mkTicket { t_wire : list (option value); t_decrypted : option value }.

Definition app_tag_1 (b : bytes) : bytes := tlv (ident 1 true 1) b.        (* asn1tools.AddASNAppTag(b, 1) *)

Definition ticket_marshal_orig (t : ticket) : option bytes :=
  match encode go_ticket_struct (VSeq (t_wire t ++ [t_decrypted t])) with
  | Some b => Some (app_tag_1 b)
  | None => None
  end.

Definition ticket_marshal (t : ticket) : option bytes :=
  match encode (TSeq ticket_fields) (VSeq (t_wire t)) with           (* tk := Ticket{TktVNO, Realm, SName, EncPart} *)
  | Some b => Some (app_tag_1 b)
  | None => None
  end.

(* MarshalTicketSequence(tkts).Bytes *)
Fixpoint concat_marshal (ts : list ticket) : option bytes :=
  match ts with
  | [] => Some []
  | t :: r => match ticket_marshal t, concat_marshal r with
              | Some b, Some bs => Some (b ++ bs)
              | _, _ => None
              end
  end.

Definition ticket_seq_marshal (ts : list ticket) : res bytes :=
  match ts with
  | [] => Ok []                                                        (* "There are no tickets to marshal" *)
  | _ => match concat_marshal ts with
         | Some btkts => do l <- marshal_len (zlen btkts); Ok (48 :: l ++ btkts)
         | None => Err 1
         end
  end.
