(* Gokrb5.model.LenOctets — code-shaped model of v8/asn1tools/tools.go:
     MarshalLengthBytes, GetLengthFromASN, GetNumberBytesInLengthHeader, AddASNAppTag.
   Go's int is 64 bits wide here; every place where the code's result depends on that is explicit:
   * MarshalLengthBytes: the running power p = 256^k wraps to 0 when k reaches 8, and `l % (p*256)` is then an
     integer division by zero: the function PANICS for every l >= 2^56 (lengths that no slice can have);
     for l <= 127 (including negative l) it returns the single octet byte(l).
   * GetLengthFromASN / GetNumberBytesInLengthHeader take a WHOLE TLV whose identifier is ONE octet
     (b[0] = identifier, b[1] = first length octet, b[2..] = further length octets): they index b[1]
     unconditionally (panic when len b < 2) and slice b[2 : 2+b[1]-128] (panic when shorter). The sum wraps
     modulo 2^64 when more than 8 length octets are given. *)
From Gokrb5.lib Require Import Bytes JV.

Definition i64 (z : Z) : Z := sint 64 z.

(* ---- MarshalLengthBytes ----
     if l <= 127 { return []byte{byte(l)} }
     var b []byte; p := 1
     for i := 1; i < 127; {                              // i never changes: leaves by break only
         b = append([]byte{byte((l % (p * 256)) / p)}, b...)
         p = p * 256
         l = l - l%p
         if l <= 0 { break }
     }
     return append([]byte{byte(128 + len(b))}, b...)                                            *)
Definition site_div0 : Z := 1.
Definition site_fuel : Z := 99.      (* unreachable: proved in LenOctetsProofs.marshal_len_never_out_of_fuel *)

Fixpoint ml_loop (fuel : nat) (l p : Z) (b : bytes) : res bytes :=
  match fuel with
  | O => Panic site_fuel
  | S f =>
    let p256 := i64 (p * 256) in
    if p256 =? 0 then Panic site_div0                    (* l % 0 : integer divide by zero *)
    else
      let d := Z.quot (Z.rem l p256) p in                (* Go's % and / truncate towards zero *)
      let b' := (d mod 256) :: b in                      (* byte(..) conversion, prepended *)
      let l' := i64 (l - Z.rem l p256) in
      if l' <=? 0 then Ok b' else ml_loop f l' p256 b'
  end.

Definition marshal_len (l : Z) : res bytes :=
  if l <=? 127 then Ok [l mod 256]
  else match ml_loop 9 l 1 [] with
       | Ok b => Ok (((128 + zlen b) mod 256) :: b)
       | Err c => Err c
       | Panic s => Panic s
       end.

(* ---- GetLengthFromASN ----
     if int(b[1]) <= 127 { return int(b[1]) }
     lb := b[2 : 2+int(b[1])-128]
     base := 1; l := 0
     for i := len(lb) - 1; i >= 0; i-- { l += int(lb[i]) * base; base = base * 256 }
     return l                                                                                   *)
Fixpoint gl_loop (rev_lb : bytes) (l base : Z) : Z :=
  match rev_lb with
  | [] => l
  | x :: r => gl_loop r (i64 (l + i64 (x * base))) (i64 (base * 256))
  end.

Definition get_length (b : bytes) : res Z :=
  do b1 <- gindex 2 b 1;
  if b1 <=? 127 then Ok b1
  else do lb <- gslice 3 b 2 (2 + b1 - 128);
       Ok (gl_loop (rev lb) 0 1).

(* ---- GetNumberBytesInLengthHeader ---- *)
Definition len_hdr_bytes (b : bytes) : res Z :=
  do b1 <- gindex 4 b 1;
  if b1 <=? 127 then Ok 1 else Ok (1 + b1 - 128).

(* ---- DER definite length octets (X.690 8.1.3 / 10.1), written independently of the code ---- *)
Fixpoint min_be (fuel : nat) (l : Z) (acc : bytes) : bytes :=
  match fuel with
  | O => acc
  | S f => if l <=? 0 then acc else min_be f (l / 256) ((l mod 256) :: acc)
  end.
(* 64 digits of base 256 cover every l < 2^512; callers use lengths of byte lists *)
Definition der_len_spec (l : Z) : bytes :=
  if l <? 128 then [l] else let b := min_be 64 l [] in (128 + zlen b) :: b.

(* the declarative form: the unique minimal definite-length encoding of l *)
Definition is_der_len (l : Z) (bs : bytes) : Prop :=
  (0 <= l < 128 /\ bs = [l]) \/
  (128 <= l /\ exists body, bs = (128 + zlen body) :: body /\ wf_bytes body /\ be_val body = l /\
                            0 < zlen body < 127 /\ (forall x r, body = x :: r -> x <> 0)).

(* ---- AddASNAppTag(b, tag): gofork marshals RawValue{Class: APPLICATION, IsCompound: true, Tag: tag, Bytes: b}
   as identifier octet(s) + definite minimal length + b. gofork is external: its identifier and length
   encoders are restated here (low-tag form below 31, high-tag form base 128 above) and validated by the
   correspondence stream. *)
Fixpoint base128 (fuel : nat) (n : Z) (acc : bytes) : bytes :=
  match fuel with
  | O => acc
  | S f => if n <=? 0 then acc else base128 f (n / 128) ((128 + n mod 128) :: acc)
  end.
Definition ident_octets (class : Z) (constructed : bool) (tag : Z) : bytes :=
  let c := class * 64 + (if constructed then 32 else 0) in
  if tag <? 31 then [c + tag]
  else (c + 31) :: base128 10 (tag / 128) [tag mod 128].

Definition add_app_tag (b : bytes) (tag : Z) : bytes :=
  ident_octets 1 true tag ++ der_len_spec (zlen b) ++ b.

(* ---- jv entry points ---- *)
Definition marshal_len_j (j : jv) : jv :=
  match j with
  | JI l => jres (fun b => [JB b]) (marshal_len l)
  | _ => jbad
  end.
Definition get_length_j (j : jv) : jv :=
  match j with
  | JB b => jres (fun l => [JI l]) (get_length b)
  | _ => jbad
  end.
Definition len_hdr_bytes_j (j : jv) : jv :=
  match j with
  | JB b => jres (fun l => [JI l]) (len_hdr_bytes b)
  | _ => jbad
  end.
Definition add_app_tag_j (j : jv) : jv :=
  match j with
  | JL [JB b; JI tag] => if (0 <=? tag) then jok [JB (add_app_tag b tag)] else jbad
  | _ => jbad
  end.
