(* Gokrb5.model.CCache — code-shaped model of v8/credentials/ccache.go (CCache.Unmarshal, parseHeader,
   parsePrincipal, parseCredential, GetEntry, GetEntries, Contains) and of the ccache part of
   v8/client/client.go NewFromCCache, for the REPAIRED code (agentwork/c15/fix-1.diff: every reader checks
   the remaining length and Unmarshal returns an error; fix-2.diff: unknown header tags are kept;
   fix-3.diff: the ticket flags are an integer in the byte order of the file).

   The Go readers move a cursor *p over b; every reader checks `s <= len(b) - *p` before advancing, so
   the cursor never passes the end and "the bytes from *p on" is the whole reader state: readers are
   modelled on the remaining suffix (as in Keytab.v).  The one place where the absolute position matters
   (the header loop `for *p <= int(h.length)`) carries p explicitly.
   Native byte order = little endian (amd64/arm64); it is used for versions 1 and 2 only.
   Loops whose trip count comes from the file run on fuel (one unit per remaining byte is always enough
   because every iteration consumes at least one byte); exhausted fuel is Err 99 and is proved impossible. *)
From Gokrb5.lib Require Import Bytes JV.

Record cprinc := mkCP {
  cp_ntype : Z;              (* PrincipalName.NameType int32; 0 in version 1 (not in the file) *)
  cp_realm : bytes;
  cp_comps : list bytes      (* PrincipalName.NameString *)
}.

Definition tagged := (Z * bytes)%type.     (* HostAddress (AddrType, Address); AuthorizationDataEntry (ADType, ADData) *)

Record cred := mkCred {
  c_client : cprinc;
  c_server : cprinc;
  c_ktype  : Z;              (* Key.KeyType int32 (read as int16) *)
  c_key    : bytes;
  c_auth   : Z;              (* times as Unix seconds (read as int32) *)
  c_start  : Z;
  c_end    : Z;
  c_renew  : Z;
  c_skey   : bool;
  c_flags  : Z;              (* TicketFlags as the uint32 whose big-endian bytes are TicketFlags.Bytes *)
  c_addrs  : list tagged;
  c_authdata : list tagged;
  c_ticket : bytes;
  c_ticket2 : bytes
}.

Record hfield := mkHF { hf_tag : Z; hf_len : Z; hf_val : bytes }.   (* uint16, uint16, value *)

Record ccache := mkCC {
  cc_version : Z;
  cc_hlen    : Z;            (* header.length uint16; 0 below version 4 *)
  cc_hfields : list hfield;
  cc_princ   : cprinc;
  cc_creds   : list cred
}.

(* ---------------- readers ---------------- *)

(* readBytes after need(b, p, s): s bytes or an error; the test is done in Z so that a length word of
   2^31-1 never becomes a unary number *)
Definition rd_bytes (s : Z) (r : bytes) : res (bytes * bytes) :=
  if (s <? 0) || (zlen r <? s) then Err 1
  else Ok (firstn (Z.to_nat s) r, skipn (Z.to_nat s) r).

Definition cval (le : bool) (b : bytes) : Z := if le then le_val b else be_val b.

(* readInt8/16/32: signed value of w bytes *)
Definition rd_int (w : Z) (le : bool) (r : bytes) : res (Z * bytes) :=
  do (x, r') <- rd_bytes w r; Ok (sint (8 * w) (cval le x), r').

(* readData: 32-bit length, then that many bytes *)
Definition rd_data (le : bool) (r : bytes) : res (bytes * bytes) :=
  do (l, r1) <- rd_int 4 le r; rd_bytes l r1.

(* readAddress / readAuthDataEntry: 16-bit type, data *)
Definition rd_tagged (le : bool) (r : bytes) : res (tagged * bytes) :=
  do (t, r1) <- rd_int 2 le r; do (d, r2) <- rd_data le r1; Ok ((t, d), r2).

(* a loop `for i := 0; i < n; i++ { x := rd(...); append }` *)
Fixpoint rd_many {A} (rd : bytes -> res (A * bytes)) (fuel : nat) (n : Z) (r : bytes)
  : res (list A * bytes) :=
  if n <=? 0 then Ok ([], r)
  else match fuel with
       | O => Err 99
       | S f =>
         do (x, r1) <- rd r;
         do (xs, r2) <- rd_many rd f (n - 1) r1;
         Ok (x :: xs, r2)
       end.

(* parsePrincipal *)
Definition rd_principal (v : Z) (le : bool) (r : bytes) : res (cprinc * bytes) :=
  do (nt, r1) <- (if v =? 1 then Ok (0, r) else rd_int 4 le r);
  do (nc0, r2) <- rd_int 4 le r1;
  let nc := if v =? 1 then nc0 - 1 else nc0 in
  do (realm, r3) <- rd_data le r2;
  do (comps, r4) <- rd_many (rd_data le) (S (length r3)) nc r3;
  Ok (mkCP nt realm comps, r4).

(* count word, need(b, p, l), make, loop *)
Definition rd_counted (le : bool) (r : bytes) : res (list tagged * bytes) :=
  do (l, r1) <- rd_int 4 le r;
  if (l <? 0) || (zlen r1 <? l) then Err 3
  else rd_many (rd_tagged le) (S (length r1)) l r1.

(* parseCredential *)
Definition rd_credential (v : Z) (le : bool) (r : bytes) : res (cred * bytes) :=
  do (cl, r1) <- rd_principal v le r;
  do (sv, r2) <- rd_principal v le r1;
  do (kt0, r3) <- rd_int 2 le r2;
  do (kt, r4) <- (if v =? 3 then rd_int 2 le r3 else Ok (kt0, r3));
  do (key, r5) <- rd_data le r4;
  do (t1, r6) <- rd_int 4 le r5;
  do (t2, r7) <- rd_int 4 le r6;
  do (t3, r8) <- rd_int 4 le r7;
  do (t4, r9) <- rd_int 4 le r8;
  do (sk, r10) <- rd_int 1 le r9;
  do (fl, r11) <- rd_int 4 le r10;                (* fix-3: an integer in file byte order *)
  do (addrs, r12) <- rd_counted le r11;
  do (ad, r13) <- rd_counted le r12;
  do (tk, r14) <- rd_data le r13;
  do (tk2, r15) <- rd_data le r14;
  Ok (mkCred cl sv kt key t1 t2 t3 t4 (negb (sk =? 0)) (wrap 32 fl) addrs ad tk tk2, r15).

(* `for p < len(b) { parseCredential }` *)
Fixpoint rd_creds (fuel : nat) (v : Z) (le : bool) (r : bytes) : res (list cred) :=
  match r with
  | [] => Ok []
  | _ :: _ =>
    match fuel with
    | O => Err 99
    | S f =>
      do (c, r1) <- rd_credential v le r;
      do cs <- rd_creds f v le r1;
      Ok (c :: cs)
    end
  end.

(* headerField.valid (fix-2: a field with an unknown tag is kept) *)
Definition hf_valid (tag len : Z) (val : bytes) : bool :=
  if tag =? 1 then (len =? 8) && (zlen val =? 8) else true.

(* the loop of parseHeader; p is the absolute cursor position (4 after the length word) *)
Fixpoint rd_hfields (fuel : nat) (p hlen : Z) (r : bytes) : res (list hfield * bytes) :=
  if p <=? hlen then
    match fuel with
    | O => Err 99
    | S f =>
      do (tag0, r1) <- rd_int 2 false r;
      do (len0, r2) <- rd_int 2 false r1;
      let tag := wrap 16 tag0 in
      let len := wrap 16 len0 in
      do (val, r3) <- rd_bytes len r2;
      if hf_valid tag len val then
        do (fs, r4) <- rd_hfields f (p + 4 + len) hlen r3;
        Ok (mkHF tag len val :: fs, r4)
      else Err 4
    end
  else Ok ([], r).

(* parseHeader (version 4 only, big endian) *)
Definition rd_header (r : bytes) : res (Z * list hfield * bytes) :=
  do (hl, r0) <- rd_int 2 false r;
  let hlen := wrap 16 hl in
  do (fs, r1) <- rd_hfields (S (length r0)) 4 hlen r0;
  Ok (hlen, fs, r1).

(* CCache.Unmarshal *)
Definition cc_unmarshal (b : bytes) : res ccache :=
  match b with
  | b0 :: v :: r =>
    if negb (b0 =? 5) then Err 10
    else if (v <? 1) || (4 <? v) then Err 11
    else
      let le := (v =? 1) || (v =? 2) in
      do (hdr, r1) <- (if v =? 4 then rd_header r else Ok (0, [], r));
      do (pr, r2) <- rd_principal v le r1;
      do cs <- rd_creds (S (length r2)) v le r2;
      Ok (mkCC v (fst hdr) (snd hdr) pr cs)
  | _ => Err 12
  end.

(* ---------------- look-ups ---------------- *)

(* PrincipalName.Equal: the name strings only (the name type is not significant, the realm is not part) *)
Fixpoint comps_eqb (a b : list bytes) : bool :=
  match a, b with
  | [], [] => true
  | x :: a', y :: b' => beq_bytes x y && comps_eqb a' b'
  | _, _ => false
  end.

Definition serves (name : list bytes) (c : cred) : bool := comps_eqb (cp_comps (c_server c)) name.

(* GetEntry: the first credential whose server name equals the request *)
Fixpoint get_entry (cs : list cred) (name : list bytes) : option cred :=
  match cs with
  | [] => None
  | c :: r => if serves name c then Some c else get_entry r name
  end.

Definition contains (cs : list cred) (name : list bytes) : bool := existsb (serves name) cs.

Fixpoint has_prefix (pre s : bytes) : bool :=
  match pre, s with
  | [], _ => true
  | x :: pre', y :: s' => (x =? y) && has_prefix pre' s'
  | _ :: _, [] => false
  end.

Definition cacheconf : bytes := [88;45;67;65;67;72;69;67;79;78;70].   (* "X-CACHECONF" *)

Definition is_conf (c : cred) : bool := has_prefix cacheconf (cp_realm (c_server c)).

(* GetEntries: everything but the configuration entries, in file order *)
Definition get_entries (cs : list cred) : list cred := filter (fun c => negb (is_conf c)) cs.

(* ---------------- NewFromCCache ---------------- *)
(* Decoding the ticket bytes (gofork asn1) is external: the harness passes, for every credential of the
   cache, the service name string of the decoded ticket (SName joined with "/") or nothing when the
   bytes are not a Ticket ("structure mode" of DESIGN 2.3).  The model then says which session and
   which ticket-cache entries the client holds. *)

Definition krbtgt : bytes := [107;114;98;116;103;116].

Record client_state := mkCS {
  cs_session : cred;                   (* Entries[realm]: times, key and TGT of this credential *)
  cs_cache   : list (bytes * cred)     (* addEntry calls in order: (spn, credential) *)
}.

Fixpoint first_serving (name : list bytes) (l : list (cred * option bytes)) : option (cred * option bytes) :=
  match l with
  | [] => None
  | (c, d) :: r => if serves name c then Some (c, d) else first_serving name r
  end.

Fixpoint add_entries (l : list (cred * option bytes)) : res (list (bytes * cred)) :=
  match l with
  | [] => Ok []
  | (c, d) :: r =>
    if is_conf c then add_entries r
    else match d with
         | None => Err 32
         | Some spn => do rest <- add_entries r; Ok ((spn, c) :: rest)
         end
  end.

Definition client_from_ccache (cc : ccache) (dec : list (option bytes)) : res client_state :=
  let l := combine (cc_creds cc) dec in
  match first_serving [krbtgt; cp_realm (cc_princ cc)] l with
  | None => Err 30
  | Some (_, None) => Err 31
  | Some (tgt, Some _) => do es <- add_entries l; Ok (mkCS tgt es)
  end.

(* map semantics of Cache.Entries: the last addEntry for an SPN wins *)
Fixpoint cache_lookup (es : list (bytes * cred)) (spn : bytes) (cur : option cred) : option cred :=
  match es with
  | [] => cur
  | (s, c) :: r => cache_lookup r spn (if beq_bytes s spn then Some c else cur)
  end.

(* ---------------- jv interface ---------------- *)

Definition j_princ (p : cprinc) : jv := JL [JI (cp_ntype p); JB (cp_realm p); JL (map JB (cp_comps p))].
Definition j_tagged (t : tagged) : jv := JL [JI (fst t); JB (snd t)].
Definition j_cred (c : cred) : jv :=
  JL [j_princ (c_client c); j_princ (c_server c); JI (c_ktype c); JB (c_key c);
      JI (c_auth c); JI (c_start c); JI (c_end c); JI (c_renew c); jbool (c_skey c); JB (be_bytes 4 (c_flags c));
      JL (map j_tagged (c_addrs c)); JL (map j_tagged (c_authdata c)); JB (c_ticket c); JB (c_ticket2 c)].
Definition j_hf (f : hfield) : jv := JL [JI (hf_tag f); JI (hf_len f); JB (hf_val f)].
Definition j_cc (cc : ccache) : list jv :=
  [JI (cc_version cc); JI (cc_hlen cc); JL (map j_hf (cc_hfields cc)); j_princ (cc_princ cc);
   JL (map j_cred (cc_creds cc))].

Definition cc_unmarshal_j (j : jv) : jv :=
  match j with
  | JB b => jres j_cc (cc_unmarshal b)
  | _ => jbad
  end.

(* the look-ups take the file and parse it first: no decoder of projected credentials is needed *)
Definition cc_getentry_j (j : jv) : jv :=
  match j with
  | JL [JB b; JL name] =>
    match map_opt as_bytes name with
    | Some name' =>
      jres (fun cc => match get_entry (cc_creds cc) name' with
                      | Some c => [JI 1; j_cred c]
                      | None => [JI 0]
                      end) (cc_unmarshal b)
    | None => jbad
    end
  | _ => jbad
  end.

Definition cc_contains_j (j : jv) : jv :=
  match j with
  | JL [JB b; JL name] =>
    match map_opt as_bytes name with
    | Some name' => jres (fun cc => [jbool (contains (cc_creds cc) name')]) (cc_unmarshal b)
    | None => jbad
    end
  | _ => jbad
  end.

Definition cc_getentries_j (j : jv) : jv :=
  match j with
  | JB b => jres (fun cc => [JL (map j_cred (get_entries (cc_creds cc)))]) (cc_unmarshal b)
  | _ => jbad
  end.

Definition un_dec (j : jv) : option (option bytes) :=
  match j with
  | JL [] => Some None
  | JL [JB s] => Some (Some s)
  | _ => None
  end.

(* input: file, per-credential decoded SPN (or nothing), SPNs to look up.
   output: the session (realm, auth/end/renew times, key, TGT bytes) and, per query, the cached entry
   (auth/start/end/renew times, key, ticket bytes) *)
Definition j_session (realm : bytes) (c : cred) : jv :=
  JL [JB realm; JI (c_auth c); JI (c_end c); JI (c_renew c); JI (c_ktype c); JB (c_key c); JB (c_ticket c)].
Definition j_centry (o : option cred) : jv :=
  match o with
  | Some c => JL [JI 1; JI (c_auth c); JI (c_start c); JI (c_end c); JI (c_renew c); JI (c_ktype c);
                  JB (c_key c); JB (c_ticket c)]
  | None => JL [JI 0]
  end.

Definition cc_client_j (j : jv) : jv :=
  match j with
  | JL [JB b; JL dec; JL qs] =>
    match map_opt un_dec dec, map_opt as_bytes qs with
    | Some dec', Some qs' =>
      jres (fun '(realm, st) => [j_session realm (cs_session st);
                                 JL (map (fun q => j_centry (cache_lookup (cs_cache st) q None)) qs')])
           (do cc <- cc_unmarshal b;
            if (length (cc_creds cc) =? length dec')%nat
            then do st <- client_from_ccache cc dec'; Ok (cp_realm (cc_princ cc), st)
            else Err 98)
    | _, _ => jbad
    end
  | _ => jbad
  end.
