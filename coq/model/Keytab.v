(* Gokrb5.model.Keytab — code-shaped model of v8/keytab/keytab.go (Unmarshal, Marshal, GetEncryptionKey).
   Cursor-based readers of the Go code are modelled as readers on the remaining suffix: every reader
   checks p+w <= len(b) before advancing, so the cursor never passes the end and "bytes from p" is the
   whole reader state.  Native byte order = little endian (amd64/arm64), used for version 1 only. *)
From Gokrb5.lib Require Import Bytes JV.

Record principal := mkPrincipal {
  p_ncomp : Z;              (* NumComponents int16 *)
  p_realm : bytes;
  p_comps : list bytes;
  p_ntype : Z               (* NameType int32 *)
}.

Record entry := mkEntry {
  e_princ : principal;
  e_ts    : Z;              (* Timestamp as Unix seconds (read as int32) *)
  e_kvno8 : Z;              (* uint8 *)
  e_ktype : Z;              (* Key.KeyType int32 (read as int16) *)
  e_key   : bytes;
  e_kvno  : Z               (* uint32 *)
}.

(* ---------------- readers ---------------- *)

Definition read_n (w : nat) (r : bytes) : res (bytes * bytes) :=
  if (length r <? w)%nat then Err 1 else Ok (firstn w r, skipn w r).

Definition val (le : bool) (b : bytes) : Z := if le then le_val b else be_val b.

(* readInt8/16/32: signed value of w bytes *)
Definition read_int (w : nat) (le : bool) (r : bytes) : res (Z * bytes) :=
  match read_n w r with
  | Ok (x, r') => Ok (sint (8 * Z.of_nat w) (val le x), r')
  | Err c => Err c
  | Panic s => Panic s
  end.

Definition read_bytes (s : Z) (r : bytes) : res (bytes * bytes) :=
  if s <? 0 then Err 2 else read_n (Z.to_nat s) r.

(* parsePrincipal: its error is IGNORED by Unmarshal; whatever was filled in so far and the cursor
   position reached are kept. *)
Fixpoint parse_comps (n : nat) (le : bool) (r : bytes) (acc : list bytes) : list bytes * bytes * bool :=
  match n with
  | O => (acc, r, true)
  | S n' =>
    match read_int 2 le r with
    | Ok (l, r1) =>
      match read_bytes l r1 with
      | Ok (c, r2) => parse_comps n' le r2 (acc ++ [c])
      | _ => (acc, r1, false)
      end
    | _ => (acc, r, false)
    end
  end.

Definition parse_principal (v : Z) (le : bool) (r : bytes) : principal * bytes :=
  match read_int 2 le r with
  | Ok (nc0, r1) =>
    let nc := if v =? 1 then sint 16 (nc0 - 1) else nc0 in
    match read_int 2 le r1 with
    | Ok (lr, r2) =>
      match read_bytes lr r2 with
      | Ok (realm, r3) =>
        match parse_comps (Z.to_nat nc) le r3 [] with
        | (comps, r4, true) =>
          if v =? 1 then (mkPrincipal nc realm comps 0, r4)
          else match read_int 4 le r4 with
               | Ok (nt, r5) => (mkPrincipal nc realm comps nt, r5)
               | _ => (mkPrincipal nc realm comps 0, r4)
               end
        | (comps, r4, false) => (mkPrincipal nc realm comps 0, r4)
        end
      | _ => (mkPrincipal nc [] [] 0, r2)
      end
    | _ => (mkPrincipal nc [] [] 0, r1)
    end
  | _ => (mkPrincipal 0 [] [] 0, r)
  end.

Definition parse_entry (v : Z) (le : bool) (eb : bytes) : res entry :=
  let '(pr, r1) := parse_principal v le eb in
  do (ts, r2) <- read_int 4 le r1;
  do (k8, r3) <- read_int 1 le r2;
  do (kt, r4) <- read_int 2 le r3;
  do (kl, r5) <- read_int 2 le r4;
  do (kv, r6) <- read_bytes kl r5;
  do kvno32 <- (if (4 <=? length r6)%nat
                then (do (x, _) <- read_int 4 le r6; Ok (wrap 32 x))
                else Ok 0);
  let k8u := wrap 8 k8 in
  Ok (mkEntry pr ts k8u kt kv (if kvno32 =? 0 then k8u else kvno32)).

(* The entry loop of Unmarshal.  l is the length word just read, r the bytes after it.
   Assumes len(b) < 2^31 (so that n + int(MinInt32) < 0). *)
Fixpoint kt_loop (fuel : nat) (v : Z) (le : bool) (l : Z) (r : bytes) (acc : list entry)
  : res (list entry) :=
  match fuel with
  | O => Err 99
  | S f =>
    let next (r' : bytes) (acc' : list entry) : res (list entry) :=
        if (length r' <? 4)%nat then Ok acc'
        else match read_int 4 le r' with
             | Ok (l', r'') => kt_loop f v le l' r'' acc'
             | Err c => Err c
             | Panic s => Panic s
             end in
    if l =? 0 then Ok acc
    else if l <? 0 then
      let h := sint 32 (- l) in
      if h <? 0 then Ok acc
      else if zlen r <? h then Ok acc
      else next (skipn (Z.to_nat h) r) acc
    else
      if zlen r <? l then Err 3
      else
        match parse_entry v le (firstn (Z.to_nat l) r) with
        | Ok e => next (skipn (Z.to_nat l) r) (acc ++ [e])
        | Err c => Err c
        | Panic s => Panic s
        end
  end.

Definition kt_unmarshal (b : bytes) : res (Z * list entry) :=
  match b with
  | b0 :: v :: r =>
    if negb (b0 =? 5) then Err 10
    else if negb ((v =? 1) || (v =? 2)) then Err 11
    else if (length r =? 0)%nat then Ok (v, [])   (* header only: no entries *)
    else
      let le := (v =? 1) in
      match read_int 4 le r with
      | Ok (l, r') =>
        match kt_loop (S (length r')) v le l r' [] with
        | Ok es => Ok (v, es)
        | Err c => Err c
        | Panic s => Panic s
        end
      | Err c => Err c
      | Panic s => Panic s
      end
  | _ => Err 12
  end.

(* ---------------- writers ---------------- *)

Definition put (w : nat) (le : bool) (z : Z) : bytes := if le then le_bytes w z else be_bytes w z.

Definition marshal_string (le : bool) (s : bytes) : bytes := put 2 le (zlen s) ++ s.

Definition princ_marshal (v : Z) (p : principal) : bytes :=
  let le := (v =? 1) in
  put 2 le (if v =? 1 then p_ncomp p + 1 else p_ncomp p) ++ marshal_string le (p_realm p)
  ++ concat (map (marshal_string le) (p_comps p))
  ++ (if v =? 1 then [] else put 4 le (p_ntype p)).

Definition entry_body (v : Z) (e : entry) : bytes :=
  let le := (v =? 1) in
  princ_marshal v (e_princ e)
  ++ put 4 le (e_ts e) ++ [wrap 8 (e_kvno8 e)] ++ put 2 le (e_ktype e) ++ put 2 le (zlen (e_key e))
  ++ e_key e ++ put 4 le (e_kvno e).

Definition entry_marshal (v : Z) (e : entry) : bytes :=
  let body := entry_body v e in put 4 (v =? 1) (zlen body) ++ body.

Definition kt_marshal (v : Z) (es : list entry) : bytes :=
  [5; v] ++ concat (map (entry_marshal v) es).

(* ---------------- key look-up ---------------- *)

Fixpoint comps_eq (a b : list bytes) : bool :=
  match a, b with
  | [], [] => true
  | x :: a', y :: b' => beq_bytes x y && comps_eq a' b'
  | _, _ => false
  end.

(* the guard of the loop body in GetEncryptionKey, apart from the timestamp comparison *)
Definition kt_match (names : list bytes) (realm : bytes) (kvno etype : Z) (k : entry) : bool :=
  beq_bytes (p_realm (e_princ k)) realm
  && comps_eq (p_comps (e_princ k)) names
  && (e_ktype k =? etype)
  && ((e_kvno k =? wrap 32 kvno) || (kvno =? 0)).

(* best: the entry selected so far with its timestamp; None = zero time.Time (before every Unix time) *)
Fixpoint get_key_loop (names : list bytes) (realm : bytes) (kvno etype : Z)
         (es : list entry) (best : option entry) : option entry :=
  match es with
  | [] => best
  | k :: r =>
    let newer := match best with None => true | Some b => e_ts b <? e_ts k end in
    if kt_match names realm kvno etype k && newer
    then get_key_loop names realm kvno etype r (Some k)
    else get_key_loop names realm kvno etype r best
  end.

Definition get_key (es : list entry) (names : list bytes) (realm : bytes) (kvno etype : Z)
  : res (bytes * Z * Z) :=   (* key value, key type, kvno *)
  match get_key_loop names realm kvno etype es None with
  | Some k => if (length (e_key k) <? 1)%nat then Err 20 else Ok (e_key k, e_ktype k, e_kvno k)
  | None => Err 20
  end.

(* ---------------- jv interface ---------------- *)

Definition j_princ (p : principal) : jv :=
  JL [JI (p_ncomp p); JB (p_realm p); JL (map JB (p_comps p)); JI (p_ntype p)].
Definition j_entry (e : entry) : jv :=
  JL [j_princ (e_princ e); JI (e_ts e); JI (e_kvno8 e); JI (e_ktype e); JB (e_key e); JI (e_kvno e)].

Definition un_princ (j : jv) : option principal :=
  match j with
  | JL [JI n; JB r; JL cs; JI t] =>
    match map_opt as_bytes cs with Some cs' => Some (mkPrincipal n r cs' t) | None => None end
  | _ => None
  end.
Definition un_entry (j : jv) : option entry :=
  match j with
  | JL [p; JI ts; JI k8; JI kt; JB key; JI kv] =>
    match un_princ p with Some p' => Some (mkEntry p' ts k8 kt key kv) | None => None end
  | _ => None
  end.

Definition kt_unmarshal_j (j : jv) : jv :=
  match j with
  | JB b => jres (fun '(v, es) => [JI v; JL (map j_entry es)]) (kt_unmarshal b)
  | _ => jbad
  end.

Definition kt_marshal_j (j : jv) : jv :=
  match j with
  | JL [JI v; JL es] =>
    match map_opt un_entry es with Some es' => jok [JB (kt_marshal v es')] | None => jbad end
  | _ => jbad
  end.

Definition kt_getkey_j (j : jv) : jv :=
  match j with
  | JL [JL es; JL names; JB realm; JI kvno; JI etype] =>
    match map_opt un_entry es, map_opt as_bytes names with
    | Some es', Some names' =>
      jres (fun '(k, t, kv) => [JB k; JI t; JI kv]) (get_key es' names' realm kvno etype)
    | _, _ => jbad
    end
  | _ => jbad
  end.
