(* Gokrb5.model.SchemaRefine — "the code's wire schema refines the RFC's": same universal types, same
   explicit tags, same APPLICATION numbers, same field order; a field the RFC marks OPTIONAL may be mandatory
   in the code (it is then always sent, which every RFC decoder accepts) but a field the RFC makes mandatory
   may never be OPTIONAL in the code (the code could then omit it).  TRaw (an opaque TLV) refines nothing but
   TRaw: every asn1.RawValue of the code has to be resolved by the wire view before the comparison. *)
From Gokrb5.lib Require Import Bytes JV.
From Gokrb5.model Require Import Schema.
From Coq Require Import String.

Definition tag_eqb (a b : option Z) : bool :=
  match a, b with
  | Some x, Some y => x =? y
  | None, None => true
  | _, _ => false
  end.

(* field lists, pairwise and in order (kept outside the fixpoint so that the nested recursion is guarded) *)
Definition fields_refine (refines : ty -> ty -> bool)
  : list (option Z * bool * ty) -> list (option Z * bool * ty) -> bool :=
  fix go (cs rs : list (option Z * bool * ty)) : bool :=
  match cs, rs with
  | [], [] => true
  | (ctag, copt, ct) :: cs', (rtag, ropt, rt) :: rs' =>
    tag_eqb ctag rtag && (negb copt || ropt) && refines ct rt && go cs' rs'
  | _, _ => false
  end.

Fixpoint schema_refines (code rfc : ty) {struct code} : bool :=
  match code, rfc with
  | TInt, TInt | TOctets, TOctets | TGenStr, TGenStr | TGenTime, TGenTime
  | TBits, TBits | TOid, TOid | TEnum, TEnum | TBool, TBool | TRaw, TRaw => true
  | TSeq cs, TSeq rs => fields_refine schema_refines cs rs
  | TSeqOf c, TSeqOf r => schema_refines c r
  | TApp n c, TApp m r => (n =? m) && schema_refines c r
  | _, _ => false
  end.

Fixpoint lookup (name : string) (l : list (string * ty)) : option ty :=
  match l with
  | [] => None
  | (k, t) :: r => if String.eqb k name then Some t else lookup name r
  end.

(* every generated schema has an RFC schema of the same name and refines it *)
Definition schema_refines_in (rfc : list (string * ty)) (e : string * ty) : bool :=
  match lookup (fst e) rfc with
  | Some r => schema_refines (snd e) r
  | None => false
  end.
Definition schemas_refine (gen rfc : list (string * ty)) : bool := forallb (schema_refines_in rfc) gen.

(* the names that fail (empty iff schemas_refine): what conform/ConfSchemas.v shows when the obligation breaks *)
Definition refine_failures (gen rfc : list (string * ty)) : list string :=
  map fst (filter (fun e => negb (schema_refines_in rfc e)) gen).

(* ---- where exactly two schemas differ: a path of field indices and a reason code, for the failure report ----
   reason: 1 different type constructor, 2 tag differs, 3 optional in code / mandatory in RFC,
           4 field count differs, 5 APPLICATION number differs *)
Definition first_field_diff (diff : ty -> ty -> option (list Z * Z))
  : Z -> list (option Z * bool * ty) -> list (option Z * bool * ty) -> option (list Z * Z) :=
  fix go (i : Z) (cs rs : list (option Z * bool * ty)) : option (list Z * Z) :=
  match cs, rs with
  | [], [] => None
  | (ctag, copt, ct) :: cs', (rtag, ropt, rt) :: rs' =>
    if negb (tag_eqb ctag rtag) then Some ([i], 2)
    else if copt && negb ropt then Some ([i], 3)
    else match diff ct rt with
         | Some (p, r) => Some (i :: p, r)
         | None => go (i + 1) cs' rs'
         end
  | _, _ => Some ([i], 4)
  end.

Fixpoint schema_diff (code rfc : ty) {struct code} : option (list Z * Z) :=
  match code, rfc with
  | TInt, TInt | TOctets, TOctets | TGenStr, TGenStr | TGenTime, TGenTime
  | TBits, TBits | TOid, TOid | TEnum, TEnum | TBool, TBool | TRaw, TRaw => None
  | TSeq cs, TSeq rs => first_field_diff schema_diff 0 cs rs
  | TSeqOf c, TSeqOf r => schema_diff c r
  | TApp n c, TApp m r => if n =? m then schema_diff c r else Some ([], 5)
  | _, _ => Some ([], 1)
  end.

Definition refine_report (gen rfc : list (string * ty)) : list (string * option (list Z * Z)) :=
  flat_map (fun e => match lookup (fst e) rfc with
                     | Some r => match schema_diff (snd e) r with
                                 | Some d => [(fst e, Some d)]
                                 | None => []
                                 end
                     | None => [(fst e, None)]
                     end) gen.

(* fields the code always sends although the RFC lets them be absent (allowed by the refinement; reported) *)
Definition stricter_fields (stricter : ty -> ty -> list (list Z))
  : Z -> list (option Z * bool * ty) -> list (option Z * bool * ty) -> list (list Z) :=
  fix go (i : Z) (cs rs : list (option Z * bool * ty)) : list (list Z) :=
  match cs, rs with
  | (_, copt, ct) :: cs', (_, ropt, rt) :: rs' =>
    (if negb copt && ropt then [[i]] else []) ++ map (cons i) (stricter ct rt) ++ go (i + 1) cs' rs'
  | _, _ => []
  end.
Fixpoint schema_stricter (code rfc : ty) {struct code} : list (list Z) :=
  match code, rfc with
  | TSeq cs, TSeq rs => stricter_fields schema_stricter 0 cs rs
  | TSeqOf c, TSeqOf r => schema_stricter c r
  | TApp _ c, TApp _ r => schema_stricter c r
  | _, _ => []
  end.
