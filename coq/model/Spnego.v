(* Gokrb5.model.Spnego — acceptance of SPNEGO / KRB5 mechanism tokens (spnego/spnego.go AcceptSecContext,
   negotiationToken.go Verify, krb5Token.go Verify) and the HTTP wrapper SPNEGOKRB5Authenticate
   (spnego/http.go), repaired code.  ASN.1 framing is decoded by external code: the model starts from the
   decoded structure; the verdict on a contained AP-REQ is that of service.VerifyAPREQ (model/APReq.v). *)
From Gokrb5.lib Require Import Bytes JV.
From Gokrb5.model Require Import Keytab Crypto Replay APReq.

Inductive oidc := OKrb5 | OMsKrb5 | OOther.

Inductive mech_token :=
| MTAPReq (v : option identity)     (* AP-REQ; Some id = VerifyAPREQ accepts it with identity id *)
| MTAPRep
| MTKrbError (msgtype_ok : bool)
| MTUnknownTokID
| MTBad.                            (* bytes KRB5Token.Unmarshal rejects *)

Inductive neg_token :=
| NInit (mechs : list oidc) (token : option mech_token)     (* token None = MechTokenBytes nil *)
| NResp (mech : oidc) (token : option mech_token).

Inductive gss_status := SComplete | SContinueNeeded | SDefectiveToken | SDefectiveCredential | SBadMech
                      | SFailure | SUnavailable.

Definition is_krb5 (o : oidc) : bool := match o with OKrb5 | OMsKrb5 => true | OOther => false end.

(* KRB5Token.Verify *)
Definition krb5_verify (mt : mech_token) : option identity * gss_status :=
  match mt with
  | MTAPReq (Some id) => (Some id, SComplete)
  | MTAPReq None => (None, SDefectiveToken)
  | MTAPRep => (None, SFailure)
  | MTKrbError true => (None, SUnavailable)
  | MTKrbError false => (None, SDefectiveToken)
  | MTUnknownTokID => (None, SDefectiveToken)
  | MTBad => (None, SDefectiveToken)
  end.

(* NegTokenInit.Verify / NegTokenResp.Verify *)
Definition init_verify (mechs : list oidc) (token : option mech_token) : option identity * gss_status :=
  if existsb is_krb5 mechs then
    match token with
    | None => (None, SContinueNeeded)
    | Some mt => krb5_verify mt
    end
  else (None, SBadMech).

Definition resp_verify (mech : oidc) (token : option mech_token) : option identity * gss_status :=
  if is_krb5 mech then
    match token with
    | None => (None, SContinueNeeded)
    | Some mt => krb5_verify mt
    end
  else (None, SBadMech).

(* SPNEGO.AcceptSecContext: (authenticated identity, status) *)
Definition accept_sec_context (t : neg_token) : option identity * gss_status :=
  match t with
  | NInit [] _ => (None, SBadMech)
  | NInit (o :: r) tok => if is_krb5 o then init_verify (o :: r) tok else (None, SDefectiveToken)
  | NResp m tok => if is_krb5 m then resp_verify m tok else (None, SDefectiveToken)
  end.

(* ---- the HTTP wrapper ---- *)
Inductive session :=
| NoManager
| NoSession (new_fails : bool)       (* a manager without (valid) stored credentials; does New fail? *)
| Session (id : identity) (authenticated : bool).

Inductive header :=
| HNone                              (* missing, other scheme, not "Negotiate <value>" *)
| HBadBase64
| HUndecodable                       (* neither an SPNEGO token nor a raw KRB5 token *)
| HToken (t : neg_token).

Inductive challenge := CNone | CNegotiate | CIncomplete | CReject | CAcceptCompleted.

Record response := mkResp { r_status : Z; r_challenge : challenge; r_inner : option identity }.
(* r_inner = Some id: the wrapped handler ran with identity id in the request context *)

Definition serve (s : session) (h : header) : response :=
  match s with
  | Session id true => mkResp 200 CNone (Some id)
  | _ =>
    match h with
    | HNone => mkResp 401 CNegotiate None
    | HBadBase64 => mkResp 401 CIncomplete None
    | HUndecodable => mkResp 401 CIncomplete None
    | HToken t =>
      match accept_sec_context t with
      | (_, SContinueNeeded) => mkResp 401 CIncomplete None
      | (Some id, SComplete) =>
        match s with
        | NoSession true => mkResp 500 CNone None
        | _ => mkResp 200 CAcceptCompleted (Some id)
        end
      | (None, SComplete) => mkResp 401 CReject None
      | (_, _) => mkResp 401 CReject None
      end
    end
  end.

(* ---- jv interface ---- *)
Definition un_oidc (j : jv) : option oidc :=
  match j with JI 0 => Some OKrb5 | JI 1 => Some OMsKrb5 | JI 2 => Some OOther | _ => None end.

(* mech token: ( i0 <verify_apreq input> ) | ( i1 ) AP-REP | ( i2 iok ) KRB-ERROR | ( i3 ) unknown tok id | ( i4 ) bad *)
Definition apreq_verdict (j : jv) : option (option identity) :=
  match j with
  | JL [st; JL kt; JI t; rc; tk; sealed_t; JL [JI aet; JB acipher]; sealed_a] =>
    match un_settings st, map_opt un_entry kt, un_rc rc, un_ticket tk, un_enc_ticket sealed_t, un_authenticator sealed_a with
    | Some st', Some kt', Some rc', Some tk', Some et, Some au =>
      match fst (verify_apreq (fun _ => Some et) (fun _ => Some au) st' kt' t rc' tk' aet acipher) with
      | Accept id => Some (Some id)
      | _ => Some None
      end
    | _, _, _, _, _, _ => None
    end
  | _ => None
  end.

Definition un_mech_token (j : jv) : option mech_token :=
  match j with
  | JL [JI 0; a] => match apreq_verdict a with Some v => Some (MTAPReq v) | None => None end
  | JL [JI 1] => Some MTAPRep
  | JL [JI 2; JI ok] => Some (MTKrbError (negb (ok =? 0)))
  | JL [JI 3] => Some MTUnknownTokID
  | JL [JI 4] => Some MTBad
  | _ => None
  end.

Definition un_opt_mech (j : jv) : option (option mech_token) :=
  match j with
  | JL [] => Some None
  | JL [m] => match un_mech_token m with Some m' => Some (Some m') | None => None end
  | _ => None
  end.

Definition un_neg_token (j : jv) : option neg_token :=
  match j with
  | JL [JI 0; JL ms; tok] =>
    match map_opt un_oidc ms, un_opt_mech tok with Some ms', Some t' => Some (NInit ms' t') | _, _ => None end
  | JL [JI 1; m; tok] =>
    match un_oidc m, un_opt_mech tok with Some m', Some t' => Some (NResp m' t') | _, _ => None end
  | _ => None
  end.

Definition status_code (s : gss_status) : Z :=
  match s with SComplete => 0 | SContinueNeeded => 1 | SDefectiveToken => 2 | SDefectiveCredential => 3
             | SBadMech => 4 | SFailure => 5 | SUnavailable => 6 end.

Definition j_id (o : option identity) : jv :=
  match o with
  | Some id => JL [JB (id_username id); JB (id_domain id)]
  | None => JL []
  end.

(* the verification APIs: authenticated? and identity *)
Definition accept_sec_context_j (j : jv) : jv :=
  match un_neg_token j with
  | Some t => let '(o, s) := accept_sec_context t in
              jok [jbool (match o with Some _ => true | None => false end); j_id o;
                   jbool (match s with SComplete | SContinueNeeded => true | _ => false end)]
  | None => jbad
  end.

Definition un_session (j : jv) : option session :=
  match j with
  | JL [JI 0] => Some NoManager
  | JL [JI 1; JI f] => Some (NoSession (negb (f =? 0)))
  | JL [JI 2; JB u; JB d; JI a] => Some (Session (mkIdentity u d [] 0) (negb (a =? 0)))
  | _ => None
  end.

Definition un_header (j : jv) : option header :=
  match j with
  | JL [JI 0] => Some HNone
  | JL [JI 1] => Some HBadBase64
  | JL [JI 2] => Some HUndecodable
  | JL [JI 3; t] => match un_neg_token t with Some t' => Some (HToken t') | None => None end
  | _ => None
  end.

Definition challenge_code (c : challenge) : Z :=
  match c with CNone => 0 | CNegotiate => 1 | CIncomplete => 2 | CReject => 3 | CAcceptCompleted => 4 end.

Definition serve_j (j : jv) : jv :=
  match j with
  | JL [s; h] =>
    match un_session s, un_header h with
    | Some s', Some h' =>
      let r := serve s' h' in
      jok [JI (r_status r); JI (challenge_code (r_challenge r)); j_id (r_inner r)]
    | _, _ => jbad
    end
  | _ => jbad
  end.
