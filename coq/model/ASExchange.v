(* Gokrb5.model.ASExchange — control flow of client.ASExchange (v8/client/ASExchange.go): the first request of an
   exchange (with a pre-emptive PA-ENC-TIMESTAMP when the client already assumes pre-authentication), one retry with a
   timestamp computed from the KDC's hints after KDC_ERR_PREAUTH_REQUIRED / _FAILED, client referrals on
   KDC_ERR_WRONG_REALM up to a fixed bound, everything else an error.  The KDCs are a script: answer number i to the
   i-th AS-REQ sent. *)
From Gokrb5.lib Require Import Bytes JV.

Inductive asresp :=
| AOk              (* an AS-REP that verifies *)
| ABadRep          (* an AS-REP that does not decode or does not verify *)
| ANeedPreauth     (* KRB-ERROR 25 *)
| APreauthFailed   (* KRB-ERROR 24 *)
| AWrongRealm      (* KRB-ERROR 68 naming another realm *)
| AOtherErr        (* any other KRB-ERROR *)
| ANetErr.         (* no KDC of the realm answered *)

Inductive asout :=
| ASuccess (ts : list bool) (assume : bool)          (* per request sent: carried PA-ENC-TIMESTAMP? ; the flag afterwards *)
| AFail (kind : Z) (ts : list bool) (assume : bool)  (* 1 KDC error, 2 network, 3 reply invalid, 4 too many referrals *)
| AOutOfFuel.

Definition is_krb_error (r : asresp) : bool :=
  match r with ANeedPreauth | APreauthFailed | AWrongRealm | AOtherErr => true | _ => false end.

Fixpoint as_exchange (fuel : nat) (script : nat -> asresp) (i : nat) (referral : nat) (assume : bool) (sent : list bool)
  : asout :=
  match fuel with
  | O => AOutOfFuel
  | S f =>
    let sent1 := sent ++ [assume] in                 (* setPAData(cl, nil, ..): a timestamp iff pre-authentication is assumed *)
    match script i with
    | AOk => ASuccess sent1 assume
    | ABadRep => AFail 3 sent1 assume
    | ANeedPreauth | APreauthFailed =>
      let sent2 := sent1 ++ [true] in                (* assume := true; setPAData with the KDC's hints; second request *)
      match script (S i) with
      | AOk => ASuccess sent2 true
      | ABadRep => AFail 3 sent2 true
      | ANetErr => AFail 2 sent2 true
      | _ => AFail 1 sent2 true                      (* any KRB-ERROR to the retry ends the exchange *)
      end
    | AWrongRealm =>
      if (5 <? referral)%nat then AFail 4 sent1 assume
      else as_exchange f script (S i) (S referral) assume sent1
    | AOtherErr => AFail 1 sent1 assume
    | ANetErr => AFail 2 sent1 assume
    end
  end.

Definition script_of (l : list asresp) (tail : asresp) (i : nat) : asresp := nth i l tail.

(* ---- jv ---- *)
Definition un_asresp (j : jv) : option asresp :=
  match j with
  | JI 0 => Some AOk | JI 1 => Some ABadRep | JI 2 => Some ANeedPreauth | JI 3 => Some APreauthFailed
  | JI 4 => Some AWrongRealm | JI 5 => Some AOtherErr | JI 6 => Some ANetErr | _ => None end.

(* ( ( script.. ) tail assume0 ) -> ( kind ( flags.. ) assume ) : kind 0 success, 1..4 as above *)
Definition as_exchange_j (j : jv) : jv :=
  match j with
  | JL [JL pre; t; JI a0] =>
    match map_opt un_asresp pre, un_asresp t with
    | Some pre', Some t' =>
      match as_exchange 32 (script_of pre' t') 0 0 (negb (a0 =? 0)) [] with
      | ASuccess ts a => jok [JI 0; JL (map jbool ts); jbool a]
      | AFail k ts a => jok [JI k; JL (map jbool ts); jbool a]
      | AOutOfFuel => jpanic
      end
    | _, _ => jbad end
  | _ => jbad
  end.
