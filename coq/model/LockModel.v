(* Gokrb5.model.LockModel — lockset discipline over the access model that the translator (harness/cmd/genaccess)
   reads off /repo's source: which function touches which field of a shared struct, reading or writing, holding
   which locks in which mode.  `race_free_except` is the checker; proofs/LockProofs.v shows that it is sound
   under the mutual-exclusion semantics of sync.RWMutex (an invariant of the runtime, assumed). *)
From Coq Require Import String List Bool.
Import ListNotations.
Open Scope string_scope.

Record access := mkAccess {
  a_fn : string;                       (* package.Type.method *)
  a_field : string;                    (* package.Type.field *)
  a_write : bool;
  a_locks : list (string * bool)       (* (lock id, held in write mode) *)
}.

(* two accesses conflict when they touch the same field and at least one writes *)
Definition conflict (a b : access) : bool :=
  String.eqb (a_field a) (a_field b) && (a_write a || a_write b).

(* they are ordered by a common lock when both hold it and every writer among them holds it in write mode *)
Definition ordered_by (a b : access) : bool :=
  existsb (fun la =>
    existsb (fun lb =>
      String.eqb (fst la) (fst lb) && (negb (a_write a) || snd la) && (negb (a_write b) || snd lb))
      (a_locks b))
    (a_locks a).

Definition mem (s : string) (l : list string) : bool := existsb (String.eqb s) l.

Definition pair_ok (except : list string) (a b : access) : bool :=
  negb (conflict a b) || ordered_by a b || mem (a_field a) except.

Definition race_free_except (except : list string) (accs : list access) : bool :=
  forallb (fun a => forallb (pair_ok except a) accs) accs.

(* the fields with at least one unordered conflicting pair (for reports) *)
Definition racy_fields (accs : list access) : list string :=
  nodup string_dec
    (flat_map (fun a => flat_map (fun b => if conflict a b && negb (ordered_by a b) then [a_field a] else []) accs) accs).
