(* Gokrb5.model.DERCodec — schema-directed DER encoder / strict decoder over the untyped values of Schema.v.
   encode reproduces gofork/encoding/asn1.Marshal on the projected value; decode is its strict inverse
   (proofs/DERProofs.v: decode_encode, encode_decode). *)
From Gokrb5.lib Require Import Bytes JV.
From Gokrb5.model Require Import Schema DER.

Definition field : Type := (option Z * bool * ty)%type.   (* explicit context tag, OPTIONAL?, type *)

(* ---------- identifiers ---------- *)
Definition id_seq : Z := 48.                               (* ident 0 true 16 *)

(* the identifier octet an encoding of type t starts with (None: TRaw, anything) *)
Definition ty_id (t : ty) : option Z :=
  match t with
  | TInt => Some 2 | TOctets => Some 4 | TGenStr => Some 27 | TGenTime => Some 24 | TBits => Some 3
  | TOid => Some 6 | TEnum => Some 10 | TBool => Some 1
  | TSeq _ => Some id_seq | TSeqOf _ => Some id_seq
  | TApp n _ => Some (ident 1 true n)
  | TRaw => None
  end.

Definition field_id (tag : option Z) (t : ty) : option Z :=
  match tag with Some n => Some (ident 2 true n) | None => ty_id t end.

Definition wrap_tag (tag : option Z) (b : bytes) : bytes :=
  match tag with Some n => tlv (ident 2 true n) b | None => b end.

(* ---------- well-formed values ---------- *)
Definition raw_ok (b : bytes) : bool :=
  match parse_tlv b with Some (_, _, []) => true | _ => false end.

(* (the function parameter is kept outside the fix so that the nested recursion below passes the guard) *)
Definition wf_fields (wf : ty -> value -> bool) : list field -> list (option value) -> bool :=
  fix go (fs : list field) (vs : list (option value)) : bool :=
  match fs, vs with
  | [], [] => true
  | (_, opt, t) :: fs', o :: vs' =>
    (match o with Some v => wf t v | None => opt end) && go fs' vs'
  | _, _ => false
  end.

Fixpoint wf_val (t : ty) (v : value) {struct t} : bool :=
  match t, v with
  | TInt, VInt _ => true
  | TEnum, VInt _ => true
  | TOctets, VBytes b => wf_bytesb b
  | TGenStr, VBytes b => wf_bytesb b
  | TGenTime, VTime s => time_ok s
  | TBits, VBits u b => bits_ok u b && wf_bytesb b
  | TOid, VOid a => oid_ok a
  | TBool, VBool _ => true
  | TSeq fs, VSeq vs => wf_fields wf_val fs vs
  | TSeqOf e, VList vs => forallb (wf_val e) vs
  | TApp _ t', _ => wf_val t' v
  | TRaw, VBytes b => wf_bytesb b && raw_ok b
  | _, _ => false
  end.

(* ---------- encoder ---------- *)
Definition enc_fields (enc : ty -> value -> bytes) : list field -> list (option value) -> bytes :=
  fix go (fs : list field) (vs : list (option value)) : bytes :=
  match fs, vs with
  | (tag, _, t) :: fs', o :: vs' =>
    (match o with Some v => wrap_tag tag (enc t v) | None => [] end) ++ go fs' vs'
  | _, _ => []
  end.

(* total on well-formed values; garbage ([]) on a shape mismatch, which encode below excludes *)
Fixpoint enc (t : ty) (v : value) {struct t} : bytes :=
  match t, v with
  | TInt, VInt z => tlv 2 (enc_int z)
  | TEnum, VInt z => tlv 10 (enc_int z)
  | TOctets, VBytes b => tlv 4 b
  | TGenStr, VBytes b => tlv 27 b
  | TGenTime, VTime s => tlv 24 (enc_time s)
  | TBits, VBits u b => tlv 3 (enc_bits u b)
  | TOid, VOid a => tlv 6 (match enc_oid a with Some x => x | None => [] end)
  | TBool, VBool b => tlv 1 [if b then 255 else 0]
  | TSeq fs, VSeq vs => tlv id_seq (enc_fields enc fs vs)
  | TSeqOf e, VList vs => tlv id_seq (flat_map (enc e) vs)
  | TApp n t', _ => tlv (ident 1 true n) (enc t' v)
  | TRaw, VBytes b => b
  | _, _ => []
  end.

Definition encode (t : ty) (v : value) : option bytes :=
  if wf_val t v then Some (enc t v) else None.

(* ---------- strict decoder ---------- *)
(* one TLV with identifier id whose body f turns into a value *)
Definition dec_prim (id : Z) (f : bytes -> option value) (b : bytes) : option (value * bytes) :=
  match parse_tlv b with
  | Some (i, body, rest) =>
    if i =? id then match f body with Some v => Some (v, rest) | None => None end else None
  | None => None
  end.

(* one constructed TLV with identifier id whose body must be consumed entirely by d *)
Definition dec_cons (id : Z) (d : bytes -> option (value * bytes)) (b : bytes) : option (value * bytes) :=
  match parse_tlv b with
  | Some (i, body, rest) =>
    if i =? id then match d body with Some (v, []) => Some (v, rest) | _ => None end else None
  | None => None
  end.

Definition dec_field (dec : ty -> bytes -> option (value * bytes)) (tag : option Z) (t : ty) (b : bytes)
  : option (value * bytes) :=
  match tag with
  | None => dec t b
  | Some n => dec_cons (ident 2 true n) (dec t) b
  end.

(* is the field (tag, t) present at the head of b?  Only consulted for OPTIONAL fields. *)
Definition present (tag : option Z) (t : ty) (b : bytes) : bool :=
  match b with
  | [] => false
  | x :: _ => match field_id tag t with Some i => x =? i | None => true end
  end.

Definition dec_fields (dec : ty -> bytes -> option (value * bytes))
  : list field -> bytes -> option (list (option value) * bytes) :=
  fix go (fs : list field) (b : bytes) : option (list (option value) * bytes) :=
  match fs with
  | [] => Some ([], b)
  | (tag, opt, t) :: fs' =>
    if negb opt || present tag t b then
      match dec_field dec tag t b with
      | Some (v, r) =>
        match go fs' r with
        | Some (vs, r') => Some (Some v :: vs, r')
        | None => None
        end
      | None => None
      end
    else
      match go fs' b with
      | Some (vs, r') => Some (None :: vs, r')
      | None => None
      end
  end.

(* elements until the input is exhausted; n bounds the number of elements *)
Fixpoint dec_list (dec1 : bytes -> option (value * bytes)) (n : nat) (b : bytes) : option (list value) :=
  match b with
  | [] => Some []
  | _ =>
    match n with
    | O => None
    | S n' =>
      match dec1 b with
      | Some (v, r) => match dec_list dec1 n' r with Some vs => Some (v :: vs) | None => None end
      | None => None
      end
    end
  end.

Definition dec_bool (body : bytes) : option value :=
  match body with
  | [x] => if x =? 255 then Some (VBool true) else if x =? 0 then Some (VBool false) else None
  | _ => None
  end.

(* fuel bounds the number of elements of any SEQUENCE OF; length of the input is always enough *)
Fixpoint decode (t : ty) (fuel : nat) (b : bytes) {struct t} : option (value * bytes) :=
  match t with
  | TInt => dec_prim 2 (fun body => option_map VInt (dec_int body)) b
  | TEnum => dec_prim 10 (fun body => option_map VInt (dec_int body)) b
  | TOctets => dec_prim 4 (fun body => Some (VBytes body)) b
  | TGenStr => dec_prim 27 (fun body => Some (VBytes body)) b
  | TGenTime => dec_prim 24 (fun body => option_map VTime (dec_time body)) b
  | TBits => dec_prim 3 (fun body => match dec_bits body with Some (u, x) => Some (VBits u x) | None => None end) b
  | TOid => dec_prim 6 (fun body => option_map VOid (dec_oid body)) b
  | TBool => dec_prim 1 dec_bool b
  | TSeq fs =>
    dec_cons id_seq (fun body => match dec_fields (fun t' b' => decode t' fuel b') fs body with
                                 | Some (vs, r) => Some (VSeq vs, r)
                                 | None => None end) b
  | TSeqOf e =>
    dec_cons id_seq (fun body => match dec_list (decode e fuel) fuel body with
                                 | Some vs => Some (VList vs, [])
                                 | None => None end) b
  | TApp n t' => dec_cons (ident 1 true n) (decode t' fuel) b
  | TRaw =>
    match parse_tlv b with
    | Some (i, body, rest) => Some (VBytes (tlv i body), rest)
    | None => None
    end
  end.

Definition decode_top (t : ty) (b : bytes) : option value :=
  match decode t (S (length b)) b with
  | Some (v, []) => Some v
  | _ => None
  end.

(* ---------- schemas on which decoding is unambiguous ---------- *)
Definition tag_ok (n : Z) : bool := (0 <=? n) && (n <? 31).
Definition opt_tag_ok (tag : option Z) : bool := match tag with Some n => tag_ok n | None => true end.

(* identifiers the encoding of the fields fs may start with: those of the fields up to and including the
   first mandatory one *)
Fixpoint first_ids (fs : list field) : list (option Z) :=
  match fs with
  | [] => []
  | (tag, opt, t) :: fs' => field_id tag t :: (if opt then first_ids fs' else [])
  end.

Definition ids_distinct (a b : option Z) : bool :=
  match a, b with Some x, Some y => negb (x =? y) | _, _ => false end.

Definition fields_ok (ok : ty -> bool) : list field -> bool :=
  fix go (fs : list field) : bool :=
  match fs with
  | [] => true
  | (tag, opt, t) :: fs' =>
    opt_tag_ok tag && ok t
    && (if opt then forallb (ids_distinct (field_id tag t)) (first_ids fs') else true)
    && go fs'
  end.

(* tag numbers below 31, and an OPTIONAL field's identifier differs from the identifiers of the fields
   after it up to and including the next mandatory one *)
Fixpoint schema_ok (t : ty) : bool :=
  match t with
  | TSeq fs => fields_ok schema_ok fs
  | TSeqOf e => schema_ok e
  | TApp n t' => tag_ok n && schema_ok t'
  | _ => true
  end.

(* ---------- jv entry points ---------- *)
Definition der_encode_j (j : jv) : jv :=
  match j with
  | JL [tyj; valj] =>
    match un_ty (jv_depth tyj) tyj, un_value (jv_depth valj) valj with
    | Some t, Some v => match encode t v with Some b => jok [JB b] | None => jerr end
    | _, _ => jbad
    end
  | _ => jbad
  end.

Definition der_decode_j (j : jv) : jv :=
  match j with
  | JL [tyj; JB b] =>
    match un_ty (jv_depth tyj) tyj with
    | Some t => match decode_top t b with Some v => jok [j_value v] | None => jerr end
    | None => jbad
    end
  | _ => jbad
  end.

Definition der_len_j (j : jv) : jv :=
  match j with JI n => jok [JB (der_len n)] | _ => jbad end.

Definition parse_len_j (j : jv) : jv :=
  match j with
  | JB b => match parse_len b with Some (n, r) => jok [JI n; JB r] | None => jerr end
  | _ => jbad
  end.

Definition enc_int_j (j : jv) : jv :=
  match j with JI z => jok [JB (enc_int z)] | _ => jbad end.

Definition dec_int_j (j : jv) : jv :=
  match j with
  | JB b => match dec_int b with Some z => jok [JI z] | None => jerr end
  | _ => jbad
  end.

Definition enc_time_j (j : jv) : jv :=
  match j with JI s => if time_ok s then jok [JB (enc_time s)] else jerr | _ => jbad end.

Definition dec_time_j (j : jv) : jv :=
  match j with
  | JB b => match dec_time b with Some s => jok [JI s] | None => jerr end
  | _ => jbad
  end.
