(* Gokrb5.model.LockOrder — lock-order discipline over the lock events that the translator (harness/cmd/genaccess)
   reads off /repo's source: which function acquires which lock class holding which others, which function it
   calls holding which locks, and where it may block on a channel.  `lock_order_ok` is the checker;
   proofs/LockOrderProofs.v shows that the discipline it enforces (every acquisition is of a lock ranked strictly
   above everything held) excludes deadlock in an abstract machine of threads and exclusive or shared locks. *)
From Coq Require Import String List Bool Arith.
Import ListNotations.
Open Scope string_scope.

Inductive lev :=
| Acq (fn lock : string) (held : list string)      (* fn acquires lock (either mode) while holding held *)
| Call (fn callee : string) (held : list string)   (* fn calls callee (same package) while holding held *)
| Block (fn what : string) (held : list string).   (* fn may block on a channel operation while holding held *)

Definition mem (s : string) (l : list string) : bool := existsb (String.eqb s) l.
Definition add (s : string) (l : list string) : list string := if mem s l then l else s :: l.
Definition union (a b : list string) : list string := fold_right add b a.

Definition fn_of (e : lev) : string := match e with Acq f _ _ | Call f _ _ | Block f _ _ => f end.
Definition fns (evs : list lev) : list string := fold_right add [] (map fn_of evs).

(* one round of the closure: what f may acquire (or whether it may block), directly or through one more level of calls *)
Definition step_acq (evs : list lev) (cur : string -> list string) (f : string) : list string :=
  fold_right (fun e acc =>
    match e with
    | Acq g l _ => if String.eqb g f then add l acc else acc
    | Call g c _ => if String.eqb g f then union (cur c) acc else acc
    | Block _ _ _ => acc
    end) [] evs.

Definition table := list (string * list string).
Definition look (t : table) (f : string) : list string :=
  match find (fun p => String.eqb (fst p) f) t with Some p => snd p | None => [] end.

Fixpoint iterate_acq (n : nat) (evs : list lev) (names : list string) (t : table) : table :=
  match n with
  | O => t
  | S n' => iterate_acq n' evs names (map (fun f => (f, step_acq evs (look t) f)) names)
  end.

(* locks that a call of f may acquire, through call chains of any depth up to the number of functions *)
Definition may_acquire (evs : list lev) : table :=
  let names := fns evs in iterate_acq (S (length names)) evs names [].

Definition step_block (evs : list lev) (cur : string -> bool) (f : string) : bool :=
  existsb (fun e =>
    match e with
    | Block g _ _ => String.eqb g f
    | Call g c _ => String.eqb g f && cur c
    | Acq _ _ _ => false
    end) evs.

Fixpoint iterate_block (n : nat) (evs : list lev) (names : list string) (t : list string) : list string :=
  match n with
  | O => t
  | S n' => iterate_block n' evs names (filter (step_block evs (fun c => mem c t)) names)
  end.

Definition may_block (evs : list lev) : list string :=
  let names := fns evs in iterate_block (S (length names)) evs names [].

(* the order edges: (held, acquired) *)
Definition edges (evs : list lev) : list (string * string) :=
  let t := may_acquire evs in
  flat_map (fun e =>
    match e with
    | Acq _ l held => map (fun h => (h, l)) held
    | Call _ c held => flat_map (fun h => map (fun l => (h, l)) (look t c)) held
    | Block _ _ _ => []
    end) evs.

Definition rank_of (ranks : list (string * nat)) (l : string) : option nat :=
  match find (fun p => String.eqb (fst p) l) ranks with Some p => Some (snd p) | None => None end.

Definition edge_ok (ranks : list (string * nat)) (e : string * string) : bool :=
  match rank_of ranks (fst e), rank_of ranks (snd e) with
  | Some a, Some b => Nat.ltb a b
  | _, _ => false
  end.

(* every lock acquired anywhere is ranked, and every edge goes strictly upwards *)
Definition lock_order_ok (ranks : list (string * nat)) (evs : list lev) : bool :=
  forallb (edge_ok ranks) (edges evs) &&
  forallb (fun e => match e with Acq _ l _ => match rank_of ranks l with Some _ => true | None => false end | _ => true end) evs.

(* no channel operation that can block is reached while a lock is held *)
Definition blocking_under_lock (evs : list lev) : list (string * string) :=
  let b := may_block evs in
  flat_map (fun e =>
    match e with
    | Block f w (_ :: _) => [(f, w)]
    | Call f c (_ :: _) => if mem c b then [(f, c)] else []
    | _ => []
    end) evs.

Definition no_block_under_lock (evs : list lev) : bool :=
  match blocking_under_lock evs with [] => true | _ => false end.

(* for reports: the edges that violate the ranking *)
Definition bad_edges (ranks : list (string * nat)) (evs : list lev) : list (string * string) :=
  filter (fun e => negb (edge_ok ranks e)) (edges evs).
