(* Gokrb5.model.PAData — code-shaped model of crypto.GetKeyFromPassword (v8/crypto/crypto.go) on decoded
   pre-authentication hints, and the RFC 4120 5.2.7.5 precedence as a specification. *)
From Gokrb5.lib Require Import Bytes JV.
From Gokrb5.model Require Import Crypto.

Inductive hint :=
| HSalt (salt : bytes)                                   (* PA-PW-SALT 3 *)
| HInfo (entries : list (Z * bytes))                     (* PA-ETYPE-INFO 11: (etype, salt) *)
| HInfo2 (entries : list (Z * bytes * option bytes))     (* PA-ETYPE-INFO2 19: (etype, salt, s2kparams) *)
| HOther (t : Z).

Definition hint_type (h : hint) : Z :=
  match h with HSalt _ => 3 | HInfo _ => 11 | HInfo2 _ => 19 | HOther t => t end.

Definition default_s2kparams (et : Z) : bytes :=
  if (et =? 17) || (et =? 18) then [48;48;48;48;49;48;48;48]        (* "00001000" *)
  else if (et =? 19) || (et =? 20) then [48;48;48;48;56;48;48;48]   (* "00008000" *)
  else [].

Definition hexdigit (n : Z) : Z := if n <? 10 then 48 + n else 87 + n.
Definition hex_of_bytes (b : bytes) : bytes := flat_map (fun x => [hexdigit (x / 16); hexdigit (x mod 16)]) b.

Record pastate := mkPS { ps_et : Z; ps_salt : bytes; ps_params : bytes; ps_id : Z }.

Definition known_etype (et : Z) : bool := match et_family et with Some _ => true | None => false end.

(* one iteration of the loop over the PA-data sequence (repaired code, /repo eb1c1ad: a hint's etype is compared
   with the etype currently selected: when they differ the hint's etype is looked up and selected, when they are equal
   it already is the selected one - either way the selected etype becomes the hint's; /repo d829d93: when
   the etype changes the default string-to-key parameters become those of the new etype) *)
Definition pa_step (req : Z) (s : pastate) (h : hint) : res pastate :=
  match h with
  | HSalt salt =>
    if 3 <? ps_id s then Ok s else Ok (mkPS (ps_et s) salt (ps_params s) 3)
  | HInfo es =>
    if 11 <? ps_id s then Ok s else
    match es with
    | [] => Ok s
    | (e0, s0) :: _ =>
      if negb (ps_et s =? e0) && negb (known_etype e0) then Err 60
      else Ok (mkPS e0 s0 (if ps_et s =? e0 then ps_params s else default_s2kparams e0) 11)
    end
  | HInfo2 es =>
    if 19 <? ps_id s then Ok s else
    match es with
    | [] => Ok s
    | (e0, s0, p0) :: _ =>
      if negb (ps_et s =? e0) && negb (known_etype e0) then Err 60
      else
        let dflt := if ps_et s =? e0 then ps_params s else default_s2kparams e0 in
        let params := match p0 with
                      | Some p => if (length p =? 4)%nat then hex_of_bytes p else dflt
                      | None => dflt end in
        Ok (mkPS e0 s0 params 19)
    end
  | HOther _ => Ok s
  end.

Fixpoint pa_fold (req : Z) (s : pastate) (hs : list hint) : res pastate :=
  match hs with
  | [] => Ok s
  | h :: r => match pa_step req s h with Ok s' => pa_fold req s' r | Err c => Err c | Panic p => Panic p end
  end.

(* the code as pinned compared with the REQUESTED etype: an ETYPE-INFO naming another etype switched the selection and
   a following ETYPE-INFO2 naming the requested etype did not switch it back *)
Definition pa_step_pinned (req : Z) (s : pastate) (h : hint) : res pastate :=
  match h with
  | HSalt salt =>
    if 3 <? ps_id s then Ok s else Ok (mkPS (ps_et s) salt (ps_params s) 3)
  | HInfo es =>
    if 11 <? ps_id s then Ok s else
    match es with
    | [] => Ok s
    | (e0, s0) :: _ =>
      if negb (req =? e0) && negb (known_etype e0) then Err 60
      else Ok (mkPS (if req =? e0 then ps_et s else e0) s0 (ps_params s) 11)
    end
  | HInfo2 es =>
    if 19 <? ps_id s then Ok s else
    match es with
    | [] => Ok s
    | (e0, s0, p0) :: _ =>
      if negb (req =? e0) && negb (known_etype e0) then Err 60
      else
        let params := match p0 with
                      | Some p => if (length p =? 4)%nat then hex_of_bytes p else ps_params s
                      | None => ps_params s end in
        Ok (mkPS (if req =? e0 then ps_et s else e0) s0 params 19)
    end
  | HOther _ => Ok s
  end.
Fixpoint pa_fold_pinned (req : Z) (s : pastate) (hs : list hint) : res pastate :=
  match hs with
  | [] => Ok s
  | h :: r => match pa_step_pinned req s h with Ok s' => pa_fold_pinned req s' r | Err c => Err c | Panic p => Panic p end
  end.
(* (key value, key type) *)
Definition key_from_password (pw : bytes) (names : list bytes) (realm : bytes) (req : Z) (hs : list hint)
  : res (bytes * Z) :=
  if negb (known_etype req) then Err 31 else
  do s <- pa_fold req (mkPS req [] (default_s2kparams req) 0) hs;
  let salt := match ps_salt s with [] => realm ++ concat names | x => x end in
  do k <- string_to_key (ps_et s) pw salt (ps_params s);
  Ok (k, req).

(* ---- RFC 4120 5.2.7.5 as a specification: the most specific hint present decides ---- *)
Definition effective (h : hint) : bool :=
  match h with HSalt _ => true | HInfo (_ :: _) => true | HInfo2 (_ :: _) => true | _ => false end.

Definition best_hint (hs : list hint) : option hint :=
  match find (fun h => effective h && (hint_type h =? 19)) hs with
  | Some h => Some h
  | None => match find (fun h => effective h && (hint_type h =? 11)) hs with
            | Some h => Some h
            | None => find (fun h => effective h && (hint_type h =? 3)) hs
            end
  end.

(* ---- jv interface ---- *)
Definition un_hint (j : jv) : option hint :=
  match j with
  | JL [JI 3; JB s] => Some (HSalt s)
  | JL [JI 11; JL es] =>
    match map_opt (fun e => match e with JL [JI et; JB s] => Some (et, s) | _ => None end) es with
    | Some es' => Some (HInfo es') | None => None end
  | JL [JI 19; JL es] =>
    match map_opt (fun e => match e with
                            | JL [JI et; JB s; JL [JB p]] => Some (et, s, Some p)
                            | JL [JI et; JB s; JL []] => Some (et, s, None)
                            | _ => None end) es with
    | Some es' => Some (HInfo2 es') | None => None end
  | JL [JI t] => Some (HOther t)
  | _ => None
  end.

Definition key_from_password_j (j : jv) : jv :=
  match j with
  | JL [JB pw; JL names; JB realm; JI req; JL hs] =>
    match map_opt as_bytes names, map_opt un_hint hs with
    | Some names', Some hs' => jres (fun '(k, t) => [JB k; JI t]) (key_from_password pw names' realm req hs')
    | _, _ => jbad
    end
  | _ => jbad
  end.
