(* Conformance obligation over gen/Sites.v: the inventory of index and slice expressions in the packages that
   consume external bytes (regenerated from /repo source on every run) equals the REVIEWED inventory below.
   A new or altered indexing expression breaks this obligation; the failing-input search is the C04 mutation
   stream.  Coverage of each group (theorem or stream) is noted per package. *)
From Coq Require Import String List.
Import ListNotations.
From Gokrb5.gen Require Import Sites.
Open Scope string_scope.

Definition reviewed_sites : list string :=
  [
   (* asn1tools — C13 LenOctets theorems (panics on inputs shorter than 2 bytes are stated: get_length_short_panics; callers check first) *)
   "asn1tools:GetLengthFromASN:b[1]";
   "asn1tools:GetLengthFromASN:b[2 : 2+int(b[1])-128]";
   "asn1tools:GetLengthFromASN:lb[i]";
   "asn1tools:GetNumberBytesInLengthHeader:b[1]";
   (* client — C12 / C10 models for the decision logic; reply handling: C04 stream through the simulated KDC *)
   "client:Cache.addEntry:(*c).Entries[spn]";
   "client:Cache.addEntry:c.Entries[spn]";
   "client:Cache.getEntry:(*c).Entries[spn]";
   "client:Client.TGSExchange:tgsRep.Ticket.SName.NameString[0]";
   "client:Client.TGSExchange:tgsRep.Ticket.SName.NameString[len(tgsRep.Ticket.SName.NameString)-1]";
   "client:Client.TGSExchange:tgsReq.ReqBody.AdditionalTickets[0]";
   "client:Client.addSession:tgt.SName.NameString[0]";
   "client:Client.addSession:tgt.SName.NameString[len(tgt.SName.NameString)-1]";
   "client:Client.spnRealm:spn.NameString[len(spn.NameString)-1]";
   "client:NewFromCCache:cl.sessions.Entries[c.DefaultPrincipal.Realm]";
   "client:dialSendTCP:kdcs[i]";
   "client:dialSendUDP:kdcs[i]";
   "client:preAuthEType:info[0]";
   "client:sendUDP:udpbuf[:n]";
   "client:sessions.get:s.Entries[realm]";
   "client:sessions.update:s.Entries[sess.realm]";
   "client:setPAData:ASReq.PAData[:len(ASReq.PAData)-1]";
   "client:setPAData:ASReq.PAData[len(ASReq.PAData)-1]";
   "client:setPAData:cl.Config.LibDefaults.PreferredPreauthTypes[0]";
   (* config — C16_parse_total + invalid/mutated file streams *)
   "config:Config.GetKDCs:kdcs[k]";
   "config:Config.GetKpasswdServers:kdcs[k]";
   "config:Config.ResolveRealm:c.DomainRealm["".""+z[len(z)-1]]";
   "config:Config.ResolveRealm:c.DomainRealm[domainName]";
   "config:Config.ResolveRealm:z[len(z)-1]";
   "config:DomainRealm.addMapping:(*d)[domain]";
   "config:DomainRealm.parseLines:line[:idx]";
   "config:DomainRealm.parseLines:p[0]";
   "config:DomainRealm.parseLines:p[1]";
   "config:LibDefaults.parseLines:line[:idx]";
   "config:LibDefaults.parseLines:p[0]";
   "config:LibDefaults.parseLines:p[1]";
   "config:NewFromScanner:lines[start:end]";
   "config:NewFromScanner:sectionLineNum[i+1]";
   "config:NewFromScanner:sections[len(lines)]";
   "config:NewFromScanner:sections[start]";
   "config:Realm.parseLines:line[:idx]";
   "config:Realm.parseLines:p[0]";
   "config:Realm.parseLines:p[1]";
   "config:Realm.parseLines:s[0]";
   "config:appendUntilFinal:value[:len(value)-1]";
   "config:appendUntilFinal:value[last]";
   "config:parseDuration:ds[0]";
   "config:parseDuration:ds[1]";
   "config:parseDuration:i[0]";
   "config:parseDuration:i[1]";
   "config:parseDuration:i[2]";
   "config:parseRealms:l[:idx]";
   "config:parseRealms:lines[start+1 : i]";
   "config:parseRealms:p[0]";
   "config:randServOrder:kdcs[i]";
   "config:randServOrder:ks[0]";
   "config:randServOrder:ks[:len(ks)-1]";
   "config:randServOrder:ks[len(ks)-1]";
   "config:randServOrder:ks[ri]";
   (* credentials — C15_cc_unmarshal_total, C15_counted_alloc_bounded + malformed stream in a child process *)
   "credentials:CCache.Unmarshal:b[p]";
   "credentials:Credentials.AddAuthzAttribute:c.groupMembership[a]";
   "credentials:Credentials.Authorized:c.groupMembership[a]";
   "credentials:Credentials.AuthzAttributes:s[i]";
   "credentials:Credentials.DisableAuthzAttribute:c.groupMembership[a]";
   "credentials:Credentials.EnableAuthzAttribute:c.groupMembership[a]";
   "credentials:Credentials.GetADCredentials:c.attributes[AttributeKeyADCredentials]";
   "credentials:Credentials.RemoveAuthzAttribute:c.groupMembership[a]";
   "credentials:Credentials.SetAttribute:c.attributes[k]";
   "credentials:isNativeEndianLittle:bp[0]";
   "credentials:parseCredential:cred.Addresses[i]";
   "credentials:parseHeader:b[*p : *p+int(f.length)]";
   "credentials:readBytes:b[*p : *p+s]";
   "credentials:readInt16:b[*p : *p+2]";
   "credentials:readInt32:b[*p : *p+4]";
   "credentials:readInt8:b[*p : *p+1]";
   (* crypto — C06_decrypt_never_panics, C06_decrypt_short_is_error; n-fold / DES3 helpers: C08 model (fixed-size inputs) + C04 stream *)
   "crypto/common:GetHash:mac.Sum(nil)[:etype.GetHMACBitLength()/8]";
   "crypto/common:PKCS7Pad:pb[len(b):]";
   "crypto/common:PKCS7Unpad:b[:len(b)-n]";
   "crypto/common:PKCS7Unpad:b[len(b)-1]";
   "crypto/common:PKCS7Unpad:b[len(b)-n+i]";
   "crypto/rfc3961:DES3DecryptMessage:b[e.GetConfounderByteSize():]";
   "crypto/rfc3961:DES3DecryptMessage:ciphertext[:len(ciphertext)-e.GetHMACBitLength()/8]";
   "crypto/rfc3961:DES3EncryptData:ct[len(ct)-e.GetMessageBlockByteSize():]";
   "crypto/rfc3961:DES3RandomToKey:b[14:21]";
   "crypto/rfc3961:DES3RandomToKey:b[7:14]";
   "crypto/rfc3961:DES3RandomToKey:b[:7]";
   "crypto/rfc3961:DeriveRandom:out[i:]";
   "crypto/rfc3961:Nfold:sumBytes[j+(i*len(sum))]";
   "crypto/rfc3961:Nfold:sum[j]";
   "crypto/rfc3961:PseudoRandom:h.Sum(nil)[:e.GetMessageBlockByteSize()]";
   "crypto/rfc3961:VerifyIntegrity:ct[len(ct)-etype.GetHMACBitLength()/8:]";
   "crypto/rfc3961:fixWeakKey:b[7]";
   "crypto/rfc3961:getBit:(*b)[pByte]";
   "crypto/rfc3961:onesComplementAddition:carryArray[len(carryArray)-1]";
   "crypto/rfc3961:setBit:(*b)[pByte]";
   "crypto/rfc3962:DecryptMessage:b[e.GetConfounderByteSize():]";
   "crypto/rfc3962:DecryptMessage:ciphertext[:len(ciphertext)-e.GetHMACBitLength()/8]";
   "crypto/rfc4757:DecryptMessage:data[:e.GetHMACBitLength()/8]";
   "crypto/rfc4757:DecryptMessage:data[e.GetHMACBitLength()/8:]";
   "crypto/rfc4757:DecryptMessage:pt[e.GetConfounderByteSize():]";
   "crypto/rfc4757:StringToKey:b[2*i+1]";
   "crypto/rfc4757:StringToKey:b[2*i]";
   "crypto/rfc4757:VerifyIntegrity:data[:e.GetHMACBitLength()/8]";
   "crypto/rfc8009:DecryptMessage:b[e.GetConfounderByteSize():]";
   "crypto/rfc8009:DecryptMessage:ciphertext[:len(ciphertext)-e.GetHMACBitLength()/8]";
   "crypto/rfc8009:DeriveKey:kerblabel[i]";
   "crypto/rfc8009:DeriveKey:label[len(label)-1]";
   "crypto/rfc8009:KDF_HMAC_SHA2:mac.Sum(nil)[:(kl / 8)]";
   "crypto/rfc8009:VerifyIntegrity:ct[:len(ct)-(etype.GetHMACBitLength()/8)]";
   "crypto/rfc8009:VerifyIntegrity:ct[len(ct)-etype.GetHMACBitLength()/8:]";
   "crypto:GetKeyFromPassword:et2[0]";
   "crypto:GetKeyFromPassword:eti[0]";
   (* gssapi — C17 unmarshal models (length checks before every slice) + C04 stream *)
   "gssapi:MICToken.Marshal:bytes[0:micHdrLen]";
   "gssapi:MICToken.Marshal:bytes[micHdrLen:]";
   "gssapi:MICToken.Unmarshal:b[0:2]";
   "gssapi:MICToken.Unmarshal:b[2]";
   "gssapi:MICToken.Unmarshal:b[3:8]";
   "gssapi:MICToken.Unmarshal:b[8:16]";
   "gssapi:MICToken.Unmarshal:b[micHdrLen:]";
   "gssapi:MICToken.checksum:d[len(mt.Payload):]";
   "gssapi:MICToken.getMICChecksumHeader:header[0:2]";
   "gssapi:MICToken.getMICChecksumHeader:header[2]";
   "gssapi:MICToken.getMICChecksumHeader:header[3:8]";
   "gssapi:MICToken.getMICChecksumHeader:header[8:16]";
   "gssapi:WrapToken.Marshal:bytes[2]";
   "gssapi:WrapToken.Marshal:bytes[3]";
   "gssapi:WrapToken.Marshal:bytes[4:6]";
   "gssapi:WrapToken.Marshal:bytes[6:8]";
   "gssapi:WrapToken.Marshal:bytes[8:16]";
   "gssapi:WrapToken.Marshal:bytes[chkSOffset:]";
   "gssapi:WrapToken.Marshal:bytes[pldOffset:]";
   "gssapi:WrapToken.Unmarshal:b[0:2]";
   "gssapi:WrapToken.Unmarshal:b[16 : len(b)-int(checksumL)]";
   "gssapi:WrapToken.Unmarshal:b[2]";
   "gssapi:WrapToken.Unmarshal:b[3:4]";
   "gssapi:WrapToken.Unmarshal:b[3]";
   "gssapi:WrapToken.Unmarshal:b[4:6]";
   "gssapi:WrapToken.Unmarshal:b[6:8]";
   "gssapi:WrapToken.Unmarshal:b[8:16]";
   "gssapi:WrapToken.Unmarshal:b[len(b)-int(checksumL):]";
   "gssapi:WrapToken.computeCheckSum:checksumMe[len(wt.Payload):]";
   "gssapi:getChecksumHeader:header[8:]";
   (* kadmin — C04 stream (reply mutations); no model *)
   "kadmin:Reply.Unmarshal:b[0:2]";
   "kadmin:Reply.Unmarshal:b[2:4]";
   "kadmin:Reply.Unmarshal:b[4:6]";
   "kadmin:Reply.Unmarshal:b[6 : 6+m.APREPLength]";
   "kadmin:Reply.Unmarshal:b[6+m.APREPLength : m.MessageLength]";
   "kadmin:Reply.Unmarshal:b[6:m.MessageLength]";
   "kadmin:parseResponse:b[0:2]";
   "kadmin:parseResponse:b[2:]";
   (* keytab — C14_unmarshal_total (bounds-checked readers) + C14/C04 malformed streams *)
   "keytab:Keytab.GetEncryptionKey:princName.NameString[i]";
   "keytab:Keytab.Unmarshal:b[0]";
   "keytab:Keytab.Unmarshal:b[1]";
   "keytab:Keytab.Unmarshal:b[n : n+int(l)]";
   "keytab:Keytab.Unmarshal:b[n:]";
   "keytab:entry.marshal:t[0:4]";
   "keytab:entry.marshal:t[4]";
   "keytab:entry.marshal:t[5:7]";
   "keytab:entry.marshal:t[7:9]";
   "keytab:isNativeEndianLittle:bp[0]";
   "keytab:readBytes:b[*p:i]";
   "keytab:readInt16:b[*p : *p+2]";
   "keytab:readInt32:b[*p : *p+4]";
   "keytab:readInt8:b[*p : *p+1]";
   (* messages — C01 apreq_total; ticket sequence: C13 ticket_seq theorems; C04 stream *)
   "messages:Ticket.GetPACType:ad2[0]";
   "messages:authenticatorKeyUsage:pn.NameString[0]";
   "messages:unmarshalTicketsSequence:b[p:]";
   (* pac — C19 pac_total + C04 stream *)
   "pac:PACType.ProcessPACInfoBuffers:pac.Data[int(buf.Offset) : int(buf.Offset)+int(buf.CBBufferSize)]";
   "pac:PACType.ProcessPACInfoBuffers:pac.ZeroSigData[int(buf.Offset) : int(buf.Offset)+int(buf.CBBufferSize)]";
   "pac:SignatureData.Unmarshal:rb[4 : 4+c]";
   "pac:UPNDNSInfo.Unmarshal:b[do:de]";
   "pac:UPNDNSInfo.Unmarshal:b[uo:ue]";
   "pac:UPNDNSInfo.Unmarshal:d[i]";
   "pac:UPNDNSInfo.Unmarshal:u[i]";
   "pac:isFlagSet:fb[b]";
   (* service — C02 model (maps only); C04 stream *)
   "service:Cache.IsReplay:c.entries[a.CName.PrincipalNameString()]";
   "service:Cache.IsReplay:ce.replayMap[ct]";
   "service:Cache.addEntry:c.entries[a.CName.PrincipalNameString()]";
   "service:Cache.addEntry:ce.replayMap[ct]";
   "service:Cache.getClientEntries:c.entries[cname.PrincipalNameString()]";
   "service:Cache.getClientEntry:ce.replayMap[t]";
   "service:Cache.getClientEntry:es[0]";
   "service:parseBasicHeaderValue:u[0]";
   "service:parseBasicHeaderValue:u[1]";
   "service:parseBasicHeaderValue:vc[0]";
   "service:parseBasicHeaderValue:vc[1]";
   (* spnego — C03 spnego_total (empty mech list) + C04 stream *)
   "spnego:KRB5Token.Unmarshal:r[0:2]";
   "spnego:KRB5Token.Unmarshal:r[2:]";
   "spnego:SPNEGO.AcceptSecContext:t.NegTokenInit.MechTypes[0]";
   "spnego:SPNEGOToken.Unmarshal:b[0]";
   "spnego:getAuthorizationNegotiationHeaderAsSPNEGOToken:s[0]";
   "spnego:getAuthorizationNegotiationHeaderAsSPNEGOToken:s[1]";
   "spnego:newAuthenticatorChksum:a[20:24]";
   "spnego:newAuthenticatorChksum:a[:4]";
   (* types — C13 is_flag_set_total / flag_bit_numbering; C04 stream *)
   "types:IsFlagSet:(*f).Bytes[b]";
   "types:ParseSPNString:s[len(s)-1]";
   "types:PrincipalName.Equal:n.NameString[i]";
   "types:SetFlag:(*f).Bytes[b]";
   "types:UnsetFlag:(*f).Bytes[b]"
  ].

Theorem site_inventory_is_the_reviewed_one : gen_sites = reviewed_sites.
Proof. reflexivity. Qed.
