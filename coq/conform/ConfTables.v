(* Conformance obligations over gen/Tables.v: the per-etype parameters the library (built from /repo's working tree)
   reports for every encryption / checksum type id in -300..300, against the tables of the RFC model (model/Crypto.v:
   RFC 3961 6.3 des3, RFC 3962 6 aes-sha1, RFC 8009 5 aes-sha2, RFC 4757 rc4; IANA checksum type numbers). *)
From Coq Require Import List ZArith Bool.
Import ListNotations.
From Gokrb5.lib Require Import Bytes.
From Gokrb5.model Require Import Crypto.
From Gokrb5.gen Require Import Tables.
Open Scope Z_scope.

(* the library supports exactly the six encryption types of the model *)
Theorem supported_etypes_are_the_models : map fst gen_etypes = [16; 17; 18; 19; 20; 23].
Proof. reflexivity. Qed.

Theorem supported_etypes_have_a_family : forallb (fun p => match et_family (fst p) with Some _ => true | None => false end) gen_etypes = true.
Proof. reflexivity. Qed.

Definition row_ok (p : Z * list Z) : bool :=
  match p with
  | (id, [eid; keyb; _seed; hmacbits; _mb; _cb; confb; hashid]) =>
      (eid =? id) && (keyb =? Z.of_nat (key_len id)) && (hmacbits =? 8 * Z.of_nat (mac_len id)) &&
      (confb =? Z.of_nat (conf_len id)) && (hashid =? chksum_type_of_etype id)
  | _ => false
  end.

(* key size, truncated-MAC size, confounder size and checksum type of every supported etype are the model's *)
Theorem etype_parameters_match_the_model : forallb row_ok gen_etypes = true.
Proof. vm_compute. reflexivity. Qed.

(* block sizes: des3 works on 8-byte message blocks of a 64-bit cipher; the AES profiles use ciphertext stealing
   (message block 1) over a 128-bit cipher; rc4 is a stream cipher *)
Theorem block_parameters :
  map (fun p => (fst p, nth 4 (snd p) 0, nth 5 (snd p) 0)) gen_etypes =
  [(16, 8, 64); (17, 1, 128); (18, 1, 128); (19, 1, 128); (20, 1, 128); (23, 1, 8)].
Proof. reflexivity. Qed.

(* checksum type ids select exactly the IANA-assigned encryption types, and nothing else is accepted *)
Theorem chksum_ids_are_the_models : map fst gen_chksum_etypes = [-138; 12; 15; 16; 19; 20].
Proof. reflexivity. Qed.

Definition ck_ok (p : Z * list Z) : bool :=
  match p with
  | (c, [e; h]) => (match etype_of_chksum_type c with Some e' => e' =? e | None => false end) && (h =? c)
  | _ => false
  end.

Theorem chksum_etypes_match_the_model : forallb ck_ok gen_chksum_etypes = true.
Proof. vm_compute. reflexivity. Qed.
