(* Conformance obligation over gen/LockEvents.v (the lock events read off /repo's source on every run). *)
From Coq Require Import String List.
Import ListNotations.
From Gokrb5.model Require Import LockOrder.
From Gokrb5.proofs Require Import LockOrderSound.
From Gokrb5.gen Require Import LockEvents.
Open Scope string_scope.

(* the ranking: the session table before a session, everything else is a leaf *)
Definition lock_ranks : list (string * nat) :=
  [("client.sessions.mux", 1); ("client.session.mux", 2); ("client.Cache.mux", 3); ("client.Settings.mux", 4);
   ("service.Cache.mux", 5)].

(* every acquisition in client, config and service — direct or through calls of any depth — is of a lock ranked
   strictly above every lock held at that point (in particular no lock class is re-acquired while held) *)
Theorem generated_lock_order_ok : lock_order_ok lock_ranks gen_lock_events = true.
Proof. vm_compute. reflexivity. Qed.

(* and no channel operation that can block is reached while a lock is held *)
Theorem generated_no_block_under_lock : no_block_under_lock gen_lock_events = true.
Proof. vm_compute. reflexivity. Qed.

(* the obligation is not vacuous: the session table's lock really is held while a session's lock is taken *)
Theorem nesting_exists : In ("client.sessions.mux", "client.session.mux") (edges gen_lock_events).
Proof. vm_compute. tauto. Qed.

(* the tables used above are closed under one more level of calls, so the verdicts cover call chains of every depth *)
Theorem generated_lock_order_sound_check : lock_order_sound_check lock_ranks gen_lock_events = true.
Proof. vm_compute. reflexivity. Qed.
Theorem generated_no_block_sound_check : no_block_sound_check gen_lock_events = true.
Proof. vm_compute. reflexivity. Qed.

(* hence, in the semantics of call chains: every lock acquired while another is held is ranked strictly above it,
   no lock class is re-acquired while held, and no blocking channel operation is reached with a lock held *)
Theorem generated_nested_locks_ranked : forall h l, nested gen_lock_events h l ->
  exists rh rl, rank_of lock_ranks h = Some rh /\ rank_of lock_ranks l = Some rl /\ rh < rl.
Proof. exact (lock_order_check_sound lock_ranks gen_lock_events generated_lock_order_sound_check). Qed.
Theorem generated_no_reentry : forall l, ~ nested gen_lock_events l l.
Proof. exact (lock_order_no_reentry lock_ranks gen_lock_events generated_lock_order_sound_check). Qed.
Theorem generated_never_blocks_under_lock : ~ blocks_under_lock gen_lock_events.
Proof. exact (no_block_check_sound gen_lock_events generated_no_block_sound_check). Qed.
