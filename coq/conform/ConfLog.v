(* Conformance obligations over gen/LogSites.v: the formatting sinks (fmt, log, krberror, Client.Log — every call
   of a function with a variadic ...interface{} parameter) of /repo/v8, read off the source with go/types on every run. *)
From Coq Require Import String List ZArith Bool.
Import ListNotations.
From Gokrb5.model Require Import Diag.
From Gokrb5.proofs Require Import DiagProofs.
From Gokrb5.gen Require Import LogSites.
Open Scope string_scope.
Open Scope bool_scope.

Definition smem (s : string) (l : list string) : bool := existsb (String.eqb s) l.

(* the one sink that prints a key value: Keytab.String(), a klist -K style dump by design (known finding of C20) *)
Definition known_secret_sinks : list string :=
  ["keytab/keytab.go:entry.String:fmt.Sprintf:e.Key.KeyValue"].

(* no other argument of any formatting sink has a static type from which a key value or a password can be reached,
   even though the fmt verbs show unexported fields *)
Theorem generated_log_args_show_no_secret :
  forallb (fun p => no_secret_visible (snd p) || smem (fst p) known_secret_sinks) gen_log_args = true.
Proof. vm_compute. reflexivity. Qed.

(* the exception list is exact (not stale) *)
Theorem known_secret_sinks_exact :
  map fst (filter (fun p => negb (no_secret_visible (snd p))) gen_log_args) = known_secret_sinks.
Proof. vm_compute. reflexivity. Qed.

(* no sink receives a raw byte slice or an untyped interface{} value (which could be anything at run time) *)
Theorem no_raw_bytes_in_sinks : gen_log_bytes_args = [].
Proof. reflexivity. Qed.
Theorem no_untyped_values_in_sinks : gen_log_iface_args = [].
Proof. reflexivity. Qed.

(* hence what any other sink prints is independent of the secrets (generic theorem instantiated) *)
Theorem generated_log_args_noninterfering :
  forall site t a b, In (site, t) gen_log_args -> smem site known_secret_sinks = false ->
  same_public t a b -> render t a = render t b.
Proof.
  intros site t a b Hin Hk Hs. apply render_noninterference; [|exact Hs].
  pose proof generated_log_args_show_no_secret as H. rewrite forallb_forall in H.
  specialize (H (site, t) Hin). cbn [fst snd] in H. rewrite Hk, Bool.orb_false_r in H. exact H.
Qed.

(* the inventory is not empty: the translator saw the sinks *)
Theorem sinks_were_found : (300 < gen_log_sinks)%Z.
Proof. reflexivity. Qed.
