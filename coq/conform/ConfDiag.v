(* Conformance obligations over gen/DiagTypes.v (regenerated from /repo/v8's source on every run). *)
From Coq Require Import String List.
Import ListNotations.
From Gokrb5.model Require Import Diag.
From Gokrb5.proofs Require Import DiagProofs DiagTight.
From Gokrb5.gen Require Import DiagTypes.
Open Scope string_scope.

(* nothing handed to encoding/json or gob can show a key value or a password through a visible field *)
Theorem generated_roots_have_no_visible_secret : forallb no_secret_visible gen_json_roots = true.
Proof. vm_compute. reflexivity. Qed.

(* hence every such encoding is independent of the secrets (generic theorem instantiated) *)
Theorem generated_roots_noninterfering :
  forall t a b, In t gen_json_roots -> same_public t a b -> render t a = render t b.
Proof.
  intros t a b Hin Hs. apply render_noninterference; [|exact Hs].
  pose proof generated_roots_have_no_visible_secret as H. rewrite forallb_forall in H. auto.
Qed.

(* and emits nothing but public tokens of the state, whatever the state (DiagTight.render_only_public) *)
Theorem generated_roots_emit_public_only :
  forall t v x, In t gen_json_roots -> In x (render t v) -> In x (pub_tokens v).
Proof.
  intros t v x Hin. apply render_only_public.
  pose proof generated_roots_have_no_visible_secret as H. rewrite forallb_forall in H. auto.
Qed.

(* the JSON / gob encoding call sites are exactly the ones whose root types are described above:
   a new diagnostic encoding has to be added to the translator's root table before this checks again *)
Theorem json_callsites_are_the_known_ones :
  gen_json_callsites =
  ["client/cache.go:Cache.JSON";
   "client/client.go:Client.Diagnostics";
   "client/client.go:Client.Diagnostics";
   "client/session.go:sessions.JSON";
   "client/settings.go:Settings.JSON";
   "config/krb5conf.go:Config.JSON";
   "credentials/credentials.go:Credentials.JSON";
   "credentials/credentials.go:Credentials.Marshal:gob";
   "keytab/keytab.go:Keytab.JSON"].
Proof. reflexivity. Qed.
