(* Conformance obligation over gen/Access.v (the access model read off /repo's source on every run). *)
From Coq Require Import String List.
Import ListNotations.
From Gokrb5.model Require Import LockModel.
From Gokrb5.proofs Require Import LockProofs.
From Gokrb5.gen Require Import Access.
Open Scope string_scope.

(* the fields with a known unsynchronised write (known findings of C11, see known_findings.txt) *)
Definition known_racy_fields : list string :=
  ["client.Client.Credentials"].

(* every other pair of conflicting accesses in client, config and service is ordered by a common lock *)
Theorem generated_access_model_race_free :
  race_free_except known_racy_fields gen_accesses = true.
Proof. vm_compute. reflexivity. Qed.

(* and the exceptions are really needed: the list is not stale *)
Theorem known_racy_fields_are_racy :
  racy_fields gen_accesses = known_racy_fields.
Proof. vm_compute. reflexivity. Qed.
