(* Gokrb5.conform.ConfSchemas — obligation over the generated gen/Schemas.v (C13): every wire schema read
   from gokrb5's struct tags (composed by the wire view) refines the RFC schema of the same name written by
   hand in model/RFCSchemas.v: same universal types, same explicit tags and APPLICATION numbers, same field
   order, and no field the RFC makes mandatory is OPTIONAL in the code.  Compiled after gen/Schemas.v on
   every run; a changed tag, string kind, `optional` or field order in /repo breaks the reflexivity below, and
   the two Evals print which schema differs, at which field path, and why
   (1 type, 2 tag, 3 optional-in-code/mandatory-in-RFC, 4 field count, 5 APPLICATION number). *)
From Gokrb5.lib Require Import Bytes JV.
From Gokrb5.model Require Import Schema RFCSchemas SchemaRefine.
From Gokrb5.gen Require Import Schemas.
From Coq Require Import String.

(* diagnostics first, so that they are printed even when the obligation below fails *)
Eval vm_compute in (refine_report gen_schemas rfc_schemas).

(* allowed by the refinement, reported: fields the code always sends although the RFC lets them be absent *)
Eval vm_compute in
  (flat_map (fun e => match lookup (fst e) rfc_schemas with
                      | Some r => match schema_stricter (snd e) r with [] => [] | l => [(fst e, l)] end
                      | None => [] end) gen_schemas).

Theorem generated_schemas_refine_rfc : schemas_refine gen_schemas rfc_schemas = true.
Proof. vm_compute. reflexivity. Qed.

(* every type the property quantifies over is in the generated table (a removed row would otherwise pass) *)
Definition c13_required : list string :=
  ["Ticket"; "Authenticator"; "EncryptedData"; "AS-REQ"; "TGS-REQ"; "KDC-REQ-BODY"; "AS-REP"; "TGS-REP";
   "EncASRepPart"; "AP-REQ"; "KRB-ERROR"; "KRB-PRIV"; "ChangePasswdData"; "NegTokenInit"; "NegTokenResp";
   "EncTicketPart"; "PrincipalName"]%string.
Theorem generated_schemas_cover_c13 :
  forallb (fun n => match lookup n gen_schemas with Some _ => true | None => false end) c13_required = true.
Proof. vm_compute. reflexivity. Qed.

(* every RFC schema is one on which DER decoding is unambiguous (tag numbers below 31; an OPTIONAL field is
   distinguishable from what may follow it) — so the codec's round-trip theorem applies to it *)
From Gokrb5.model Require Import DER DERCodec.
From Gokrb5.proofs Require Import SchemaRefineProofs.
Theorem rfc_schemas_unambiguous : forallb (fun e : string * ty => schema_ok (snd e)) rfc_schemas = true.
Proof. vm_compute. reflexivity. Qed.
Theorem generated_schemas_unambiguous : forallb (fun e : string * ty => schema_ok (snd e)) gen_schemas = true.
Proof. vm_compute. reflexivity. Qed.

(* "an independent implementation decodes it to the same field values": every encoding along a generated wire
   schema is decoded by the RFC schema of the same name to the value that was encoded *)
Theorem rfc_decoder_reads_generated :
  forall name g v b, In (name, g) gen_schemas -> encode g v = Some b -> zlen b < 2 ^ 32 ->
  exists r, lookup name rfc_schemas = Some r /\ decode_top r b = Some v.
Proof. exact (refinement_gives_interop gen_schemas rfc_schemas generated_schemas_refine_rfc rfc_schemas_unambiguous). Qed.
Print Assumptions rfc_decoder_reads_generated.

(* model/Msg.v (Ticket.Marshal, MarshalTicketSequence) is stated over the RFC schemas: the generated ones are
   these very terms, so its theorems speak about the code's wire format *)
Theorem generated_ticket_is_rfc_ticket : gen_Ticket = rfc_Ticket /\ gen_EncTicketPart = rfc_EncTicketPart.
Proof. split; reflexivity. Qed.
