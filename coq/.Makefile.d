lib/Bytes.vo lib/Bytes.glob lib/Bytes.v.beautified lib/Bytes.required_vo: lib/Bytes.v 
lib/Bytes.vio: lib/Bytes.v 
lib/Bytes.vos lib/Bytes.vok lib/Bytes.required_vos: lib/Bytes.v 
lib/JV.vo lib/JV.glob lib/JV.v.beautified lib/JV.required_vo: lib/JV.v lib/Bytes.vo
lib/JV.vio: lib/JV.v lib/Bytes.vio
lib/JV.vos lib/JV.vok lib/JV.required_vos: lib/JV.v lib/Bytes.vos
lib/GoString.vo lib/GoString.glob lib/GoString.v.beautified lib/GoString.required_vo: lib/GoString.v lib/Bytes.vo
lib/GoString.vio: lib/GoString.v lib/Bytes.vio
lib/GoString.vos lib/GoString.vok lib/GoString.required_vos: lib/GoString.v lib/Bytes.vos
prim/HashCommon.vo prim/HashCommon.glob prim/HashCommon.v.beautified prim/HashCommon.required_vo: prim/HashCommon.v lib/Bytes.vo
prim/HashCommon.vio: prim/HashCommon.v lib/Bytes.vio
prim/HashCommon.vos prim/HashCommon.vok prim/HashCommon.required_vos: prim/HashCommon.v lib/Bytes.vos
prim/SHA1.vo prim/SHA1.glob prim/SHA1.v.beautified prim/SHA1.required_vo: prim/SHA1.v lib/Bytes.vo prim/HashCommon.vo
prim/SHA1.vio: prim/SHA1.v lib/Bytes.vio prim/HashCommon.vio
prim/SHA1.vos prim/SHA1.vok prim/SHA1.required_vos: prim/SHA1.v lib/Bytes.vos prim/HashCommon.vos
prim/SHA256.vo prim/SHA256.glob prim/SHA256.v.beautified prim/SHA256.required_vo: prim/SHA256.v lib/Bytes.vo prim/HashCommon.vo
prim/SHA256.vio: prim/SHA256.v lib/Bytes.vio prim/HashCommon.vio
prim/SHA256.vos prim/SHA256.vok prim/SHA256.required_vos: prim/SHA256.v lib/Bytes.vos prim/HashCommon.vos
prim/SHA512.vo prim/SHA512.glob prim/SHA512.v.beautified prim/SHA512.required_vo: prim/SHA512.v lib/Bytes.vo prim/HashCommon.vo
prim/SHA512.vio: prim/SHA512.v lib/Bytes.vio prim/HashCommon.vio
prim/SHA512.vos prim/SHA512.vok prim/SHA512.required_vos: prim/SHA512.v lib/Bytes.vos prim/HashCommon.vos
prim/MD4.vo prim/MD4.glob prim/MD4.v.beautified prim/MD4.required_vo: prim/MD4.v lib/Bytes.vo prim/HashCommon.vo
prim/MD4.vio: prim/MD4.v lib/Bytes.vio prim/HashCommon.vio
prim/MD4.vos prim/MD4.vok prim/MD4.required_vos: prim/MD4.v lib/Bytes.vos prim/HashCommon.vos
prim/MD5.vo prim/MD5.glob prim/MD5.v.beautified prim/MD5.required_vo: prim/MD5.v lib/Bytes.vo prim/HashCommon.vo
prim/MD5.vio: prim/MD5.v lib/Bytes.vio prim/HashCommon.vio
prim/MD5.vos prim/MD5.vok prim/MD5.required_vos: prim/MD5.v lib/Bytes.vos prim/HashCommon.vos
prim/HMAC.vo prim/HMAC.glob prim/HMAC.v.beautified prim/HMAC.required_vo: prim/HMAC.v lib/Bytes.vo prim/HashCommon.vo prim/SHA1.vo prim/SHA256.vo prim/SHA512.vo prim/MD5.vo
prim/HMAC.vio: prim/HMAC.v lib/Bytes.vio prim/HashCommon.vio prim/SHA1.vio prim/SHA256.vio prim/SHA512.vio prim/MD5.vio
prim/HMAC.vos prim/HMAC.vok prim/HMAC.required_vos: prim/HMAC.v lib/Bytes.vos prim/HashCommon.vos prim/SHA1.vos prim/SHA256.vos prim/SHA512.vos prim/MD5.vos
prim/PBKDF2.vo prim/PBKDF2.glob prim/PBKDF2.v.beautified prim/PBKDF2.required_vo: prim/PBKDF2.v lib/Bytes.vo prim/HashCommon.vo prim/HMAC.vo
prim/PBKDF2.vio: prim/PBKDF2.v lib/Bytes.vio prim/HashCommon.vio prim/HMAC.vio
prim/PBKDF2.vos prim/PBKDF2.vok prim/PBKDF2.required_vos: prim/PBKDF2.v lib/Bytes.vos prim/HashCommon.vos prim/HMAC.vos
prim/CBC.vo prim/CBC.glob prim/CBC.v.beautified prim/CBC.required_vo: prim/CBC.v lib/Bytes.vo
prim/CBC.vio: prim/CBC.v lib/Bytes.vio
prim/CBC.vos prim/CBC.vok prim/CBC.required_vos: prim/CBC.v lib/Bytes.vos
prim/AES.vo prim/AES.glob prim/AES.v.beautified prim/AES.required_vo: prim/AES.v lib/Bytes.vo prim/CBC.vo
prim/AES.vio: prim/AES.v lib/Bytes.vio prim/CBC.vio
prim/AES.vos prim/AES.vok prim/AES.required_vos: prim/AES.v lib/Bytes.vos prim/CBC.vos
prim/DES.vo prim/DES.glob prim/DES.v.beautified prim/DES.required_vo: prim/DES.v lib/Bytes.vo
prim/DES.vio: prim/DES.v lib/Bytes.vio
prim/DES.vos prim/DES.vok prim/DES.required_vos: prim/DES.v lib/Bytes.vos
prim/RC4.vo prim/RC4.glob prim/RC4.v.beautified prim/RC4.required_vo: prim/RC4.v lib/Bytes.vo
prim/RC4.vio: prim/RC4.v lib/Bytes.vio
prim/RC4.vos prim/RC4.vok prim/RC4.required_vos: prim/RC4.v lib/Bytes.vos
prim/HashVectors.vo prim/HashVectors.glob prim/HashVectors.v.beautified prim/HashVectors.required_vo: prim/HashVectors.v lib/Bytes.vo prim/SHA1.vo prim/SHA256.vo prim/SHA512.vo prim/MD4.vo prim/MD5.vo prim/HMAC.vo prim/PBKDF2.vo
prim/HashVectors.vio: prim/HashVectors.v lib/Bytes.vio prim/SHA1.vio prim/SHA256.vio prim/SHA512.vio prim/MD4.vio prim/MD5.vio prim/HMAC.vio prim/PBKDF2.vio
prim/HashVectors.vos prim/HashVectors.vok prim/HashVectors.required_vos: prim/HashVectors.v lib/Bytes.vos prim/SHA1.vos prim/SHA256.vos prim/SHA512.vos prim/MD4.vos prim/MD5.vos prim/HMAC.vos prim/PBKDF2.vos
prim/CipherVectors.vo prim/CipherVectors.glob prim/CipherVectors.v.beautified prim/CipherVectors.required_vo: prim/CipherVectors.v lib/Bytes.vo prim/CBC.vo prim/AES.vo prim/DES.vo prim/RC4.vo
prim/CipherVectors.vio: prim/CipherVectors.v lib/Bytes.vio prim/CBC.vio prim/AES.vio prim/DES.vio prim/RC4.vio
prim/CipherVectors.vos prim/CipherVectors.vok prim/CipherVectors.required_vos: prim/CipherVectors.v lib/Bytes.vos prim/CBC.vos prim/AES.vos prim/DES.vos prim/RC4.vos
model/Keytab.vo model/Keytab.glob model/Keytab.v.beautified model/Keytab.required_vo: model/Keytab.v lib/Bytes.vo lib/JV.vo
model/Keytab.vio: model/Keytab.v lib/Bytes.vio lib/JV.vio
model/Keytab.vos model/Keytab.vok model/Keytab.required_vos: model/Keytab.v lib/Bytes.vos lib/JV.vos
model/CCache.vo model/CCache.glob model/CCache.v.beautified model/CCache.required_vo: model/CCache.v lib/Bytes.vo lib/JV.vo
model/CCache.vio: model/CCache.v lib/Bytes.vio lib/JV.vio
model/CCache.vos model/CCache.vok model/CCache.required_vos: model/CCache.v lib/Bytes.vos lib/JV.vos
model/GSSToken.vo model/GSSToken.glob model/GSSToken.v.beautified model/GSSToken.required_vo: model/GSSToken.v lib/Bytes.vo lib/JV.vo
model/GSSToken.vio: model/GSSToken.v lib/Bytes.vio lib/JV.vio
model/GSSToken.vos model/GSSToken.vok model/GSSToken.required_vos: model/GSSToken.v lib/Bytes.vos lib/JV.vos
model/Crypto.vo model/Crypto.glob model/Crypto.v.beautified model/Crypto.required_vo: model/Crypto.v lib/Bytes.vo lib/JV.vo prim/SHA1.vo prim/SHA256.vo prim/SHA512.vo prim/MD4.vo prim/MD5.vo prim/HMAC.vo prim/PBKDF2.vo prim/CBC.vo prim/AES.vo prim/DES.vo prim/RC4.vo
model/Crypto.vio: model/Crypto.v lib/Bytes.vio lib/JV.vio prim/SHA1.vio prim/SHA256.vio prim/SHA512.vio prim/MD4.vio prim/MD5.vio prim/HMAC.vio prim/PBKDF2.vio prim/CBC.vio prim/AES.vio prim/DES.vio prim/RC4.vio
model/Crypto.vos model/Crypto.vok model/Crypto.required_vos: model/Crypto.v lib/Bytes.vos lib/JV.vos prim/SHA1.vos prim/SHA256.vos prim/SHA512.vos prim/MD4.vos prim/MD5.vos prim/HMAC.vos prim/PBKDF2.vos prim/CBC.vos prim/AES.vos prim/DES.vos prim/RC4.vos
model/GSSVerify.vo model/GSSVerify.glob model/GSSVerify.v.beautified model/GSSVerify.required_vo: model/GSSVerify.v lib/Bytes.vo lib/JV.vo model/GSSToken.vo model/Crypto.vo
model/GSSVerify.vio: model/GSSVerify.v lib/Bytes.vio lib/JV.vio model/GSSToken.vio model/Crypto.vio
model/GSSVerify.vos model/GSSVerify.vok model/GSSVerify.required_vos: model/GSSVerify.v lib/Bytes.vos lib/JV.vos model/GSSToken.vos model/Crypto.vos
model/PAData.vo model/PAData.glob model/PAData.v.beautified model/PAData.required_vo: model/PAData.v lib/Bytes.vo lib/JV.vo model/Crypto.vo
model/PAData.vio: model/PAData.v lib/Bytes.vio lib/JV.vio model/Crypto.vio
model/PAData.vos model/PAData.vok model/PAData.required_vos: model/PAData.v lib/Bytes.vos lib/JV.vos model/Crypto.vos
model/Replay.vo model/Replay.glob model/Replay.v.beautified model/Replay.required_vo: model/Replay.v lib/Bytes.vo lib/JV.vo
model/Replay.vio: model/Replay.v lib/Bytes.vio lib/JV.vio
model/Replay.vos model/Replay.vok model/Replay.required_vos: model/Replay.v lib/Bytes.vos lib/JV.vos
model/Network.vo model/Network.glob model/Network.v.beautified model/Network.required_vo: model/Network.v lib/Bytes.vo lib/JV.vo
model/Network.vio: model/Network.v lib/Bytes.vio lib/JV.vio
model/Network.vos model/Network.vok model/Network.required_vos: model/Network.v lib/Bytes.vos lib/JV.vos
model/Schema.vo model/Schema.glob model/Schema.v.beautified model/Schema.required_vo: model/Schema.v lib/Bytes.vo lib/JV.vo
model/Schema.vio: model/Schema.v lib/Bytes.vio lib/JV.vio
model/Schema.vos model/Schema.vok model/Schema.required_vos: model/Schema.v lib/Bytes.vos lib/JV.vos
model/DER.vo model/DER.glob model/DER.v.beautified model/DER.required_vo: model/DER.v lib/Bytes.vo
model/DER.vio: model/DER.v lib/Bytes.vio
model/DER.vos model/DER.vok model/DER.required_vos: model/DER.v lib/Bytes.vos
model/DERCodec.vo model/DERCodec.glob model/DERCodec.v.beautified model/DERCodec.required_vo: model/DERCodec.v lib/Bytes.vo lib/JV.vo model/Schema.vo model/DER.vo
model/DERCodec.vio: model/DERCodec.v lib/Bytes.vio lib/JV.vio model/Schema.vio model/DER.vio
model/DERCodec.vos model/DERCodec.vok model/DERCodec.required_vos: model/DERCodec.v lib/Bytes.vos lib/JV.vos model/Schema.vos model/DER.vos
model/Diag.vo model/Diag.glob model/Diag.v.beautified model/Diag.required_vo: model/Diag.v lib/Bytes.vo lib/JV.vo
model/Diag.vio: model/Diag.v lib/Bytes.vio lib/JV.vio
model/Diag.vos model/Diag.vok model/Diag.required_vos: model/Diag.v lib/Bytes.vos lib/JV.vos
model/LenOctets.vo model/LenOctets.glob model/LenOctets.v.beautified model/LenOctets.required_vo: model/LenOctets.v lib/Bytes.vo lib/JV.vo
model/LenOctets.vio: model/LenOctets.v lib/Bytes.vio lib/JV.vio
model/LenOctets.vos model/LenOctets.vok model/LenOctets.required_vos: model/LenOctets.v lib/Bytes.vos lib/JV.vos
model/Flags.vo model/Flags.glob model/Flags.v.beautified model/Flags.required_vo: model/Flags.v lib/Bytes.vo lib/JV.vo
model/Flags.vio: model/Flags.v lib/Bytes.vio lib/JV.vio
model/Flags.vos model/Flags.vok model/Flags.required_vos: model/Flags.v lib/Bytes.vos lib/JV.vos
model/RFCSchemas.vo model/RFCSchemas.glob model/RFCSchemas.v.beautified model/RFCSchemas.required_vo: model/RFCSchemas.v lib/Bytes.vo lib/JV.vo model/Schema.vo
model/RFCSchemas.vio: model/RFCSchemas.v lib/Bytes.vio lib/JV.vio model/Schema.vio
model/RFCSchemas.vos model/RFCSchemas.vok model/RFCSchemas.required_vos: model/RFCSchemas.v lib/Bytes.vos lib/JV.vos model/Schema.vos
model/SchemaRefine.vo model/SchemaRefine.glob model/SchemaRefine.v.beautified model/SchemaRefine.required_vo: model/SchemaRefine.v lib/Bytes.vo lib/JV.vo model/Schema.vo
model/SchemaRefine.vio: model/SchemaRefine.v lib/Bytes.vio lib/JV.vio model/Schema.vio
model/SchemaRefine.vos model/SchemaRefine.vok model/SchemaRefine.required_vos: model/SchemaRefine.v lib/Bytes.vos lib/JV.vos model/Schema.vos
model/Framing.vo model/Framing.glob model/Framing.v.beautified model/Framing.required_vo: model/Framing.v lib/Bytes.vo lib/JV.vo model/Schema.vo model/DER.vo model/DERCodec.vo
model/Framing.vio: model/Framing.v lib/Bytes.vio lib/JV.vio model/Schema.vio model/DER.vio model/DERCodec.vio
model/Framing.vos model/Framing.vok model/Framing.required_vos: model/Framing.v lib/Bytes.vos lib/JV.vos model/Schema.vos model/DER.vos model/DERCodec.vos
model/Msg.vo model/Msg.glob model/Msg.v.beautified model/Msg.required_vo: model/Msg.v lib/Bytes.vo lib/JV.vo model/Schema.vo model/DER.vo model/DERCodec.vo model/RFCSchemas.vo model/LenOctets.vo
model/Msg.vio: model/Msg.v lib/Bytes.vio lib/JV.vio model/Schema.vio model/DER.vio model/DERCodec.vio model/RFCSchemas.vio model/LenOctets.vio
model/Msg.vos model/Msg.vok model/Msg.required_vos: model/Msg.v lib/Bytes.vos lib/JV.vos model/Schema.vos model/DER.vos model/DERCodec.vos model/RFCSchemas.vos model/LenOctets.vos
model/APReq.vo model/APReq.glob model/APReq.v.beautified model/APReq.required_vo: model/APReq.v lib/Bytes.vo lib/JV.vo model/Keytab.vo model/Crypto.vo model/Replay.vo
model/APReq.vio: model/APReq.v lib/Bytes.vio lib/JV.vio model/Keytab.vio model/Crypto.vio model/Replay.vio
model/APReq.vos model/APReq.vok model/APReq.required_vos: model/APReq.v lib/Bytes.vos lib/JV.vos model/Keytab.vos model/Crypto.vos model/Replay.vos
model/Spnego.vo model/Spnego.glob model/Spnego.v.beautified model/Spnego.required_vo: model/Spnego.v lib/Bytes.vo lib/JV.vo model/Keytab.vo model/Crypto.vo model/Replay.vo model/APReq.vo
model/Spnego.vio: model/Spnego.v lib/Bytes.vio lib/JV.vio model/Keytab.vio model/Crypto.vio model/Replay.vio model/APReq.vio
model/Spnego.vos model/Spnego.vok model/Spnego.required_vos: model/Spnego.v lib/Bytes.vos lib/JV.vos model/Keytab.vos model/Crypto.vos model/Replay.vos model/APReq.vos
model/HttpClient.vo model/HttpClient.glob model/HttpClient.v.beautified model/HttpClient.required_vo: model/HttpClient.v lib/Bytes.vo lib/JV.vo
model/HttpClient.vio: model/HttpClient.v lib/Bytes.vio lib/JV.vio
model/HttpClient.vos model/HttpClient.vok model/HttpClient.required_vos: model/HttpClient.v lib/Bytes.vos lib/JV.vos
model/KDCRep.vo model/KDCRep.glob model/KDCRep.v.beautified model/KDCRep.required_vo: model/KDCRep.v lib/Bytes.vo lib/JV.vo model/Keytab.vo model/Crypto.vo model/PAData.vo model/Replay.vo model/APReq.vo
model/KDCRep.vio: model/KDCRep.v lib/Bytes.vio lib/JV.vio model/Keytab.vio model/Crypto.vio model/PAData.vio model/Replay.vio model/APReq.vio
model/KDCRep.vos model/KDCRep.vok model/KDCRep.required_vos: model/KDCRep.v lib/Bytes.vos lib/JV.vos model/Keytab.vos model/Crypto.vos model/PAData.vos model/Replay.vos model/APReq.vos
model/ClientSM.vo model/ClientSM.glob model/ClientSM.v.beautified model/ClientSM.required_vo: model/ClientSM.v lib/Bytes.vo lib/JV.vo
model/ClientSM.vio: model/ClientSM.v lib/Bytes.vio lib/JV.vio
model/ClientSM.vos model/ClientSM.vok model/ClientSM.required_vos: model/ClientSM.v lib/Bytes.vos lib/JV.vos
model/Krb5Conf.vo model/Krb5Conf.glob model/Krb5Conf.v.beautified model/Krb5Conf.required_vo: model/Krb5Conf.v lib/Bytes.vo lib/JV.vo lib/GoString.vo
model/Krb5Conf.vio: model/Krb5Conf.v lib/Bytes.vio lib/JV.vio lib/GoString.vio
model/Krb5Conf.vos model/Krb5Conf.vok model/Krb5Conf.required_vos: model/Krb5Conf.v lib/Bytes.vos lib/JV.vos lib/GoString.vos
model/Hosts.vo model/Hosts.glob model/Hosts.v.beautified model/Hosts.required_vo: model/Hosts.v lib/Bytes.vo lib/JV.vo lib/GoString.vo model/Krb5Conf.vo
model/Hosts.vio: model/Hosts.v lib/Bytes.vio lib/JV.vio lib/GoString.vio model/Krb5Conf.vio
model/Hosts.vos model/Hosts.vok model/Hosts.required_vos: model/Hosts.v lib/Bytes.vos lib/JV.vos lib/GoString.vos model/Krb5Conf.vos
model/LockModel.vo model/LockModel.glob model/LockModel.v.beautified model/LockModel.required_vo: model/LockModel.v 
model/LockModel.vio: model/LockModel.v 
model/LockModel.vos model/LockModel.vok model/LockModel.required_vos: model/LockModel.v 
proofs/KeytabLookup.vo proofs/KeytabLookup.glob proofs/KeytabLookup.v.beautified proofs/KeytabLookup.required_vo: proofs/KeytabLookup.v lib/Bytes.vo lib/JV.vo model/Keytab.vo
proofs/KeytabLookup.vio: proofs/KeytabLookup.v lib/Bytes.vio lib/JV.vio model/Keytab.vio
proofs/KeytabLookup.vos proofs/KeytabLookup.vok proofs/KeytabLookup.required_vos: proofs/KeytabLookup.v lib/Bytes.vos lib/JV.vos model/Keytab.vos
proofs/KeytabParse.vo proofs/KeytabParse.glob proofs/KeytabParse.v.beautified proofs/KeytabParse.required_vo: proofs/KeytabParse.v lib/Bytes.vo lib/JV.vo model/Keytab.vo
proofs/KeytabParse.vio: proofs/KeytabParse.v lib/Bytes.vio lib/JV.vio model/Keytab.vio
proofs/KeytabParse.vos proofs/KeytabParse.vok proofs/KeytabParse.required_vos: proofs/KeytabParse.v lib/Bytes.vos lib/JV.vos model/Keytab.vos
proofs/KeytabTotal.vo proofs/KeytabTotal.glob proofs/KeytabTotal.v.beautified proofs/KeytabTotal.required_vo: proofs/KeytabTotal.v lib/Bytes.vo lib/JV.vo model/Keytab.vo proofs/KeytabParse.vo
proofs/KeytabTotal.vio: proofs/KeytabTotal.v lib/Bytes.vio lib/JV.vio model/Keytab.vio proofs/KeytabParse.vio
proofs/KeytabTotal.vos proofs/KeytabTotal.vok proofs/KeytabTotal.required_vos: proofs/KeytabTotal.v lib/Bytes.vos lib/JV.vos model/Keytab.vos proofs/KeytabParse.vos
proofs/CCacheParse.vo proofs/CCacheParse.glob proofs/CCacheParse.v.beautified proofs/CCacheParse.required_vo: proofs/CCacheParse.v lib/Bytes.vo lib/JV.vo model/CCache.vo
proofs/CCacheParse.vio: proofs/CCacheParse.v lib/Bytes.vio lib/JV.vio model/CCache.vio
proofs/CCacheParse.vos proofs/CCacheParse.vok proofs/CCacheParse.required_vos: proofs/CCacheParse.v lib/Bytes.vos lib/JV.vos model/CCache.vos
proofs/CCacheLookup.vo proofs/CCacheLookup.glob proofs/CCacheLookup.v.beautified proofs/CCacheLookup.required_vo: proofs/CCacheLookup.v lib/Bytes.vo lib/JV.vo model/CCache.vo
proofs/CCacheLookup.vio: proofs/CCacheLookup.v lib/Bytes.vio lib/JV.vio model/CCache.vio
proofs/CCacheLookup.vos proofs/CCacheLookup.vok proofs/CCacheLookup.required_vos: proofs/CCacheLookup.v lib/Bytes.vos lib/JV.vos model/CCache.vos
proofs/CCacheTotal.vo proofs/CCacheTotal.glob proofs/CCacheTotal.v.beautified proofs/CCacheTotal.required_vo: proofs/CCacheTotal.v lib/Bytes.vo lib/JV.vo model/CCache.vo
proofs/CCacheTotal.vio: proofs/CCacheTotal.v lib/Bytes.vio lib/JV.vio model/CCache.vio
proofs/CCacheTotal.vos proofs/CCacheTotal.vok proofs/CCacheTotal.required_vos: proofs/CCacheTotal.v lib/Bytes.vos lib/JV.vos model/CCache.vos
proofs/GSSTokenProofs.vo proofs/GSSTokenProofs.glob proofs/GSSTokenProofs.v.beautified proofs/GSSTokenProofs.required_vo: proofs/GSSTokenProofs.v lib/Bytes.vo lib/JV.vo model/GSSToken.vo
proofs/GSSTokenProofs.vio: proofs/GSSTokenProofs.v lib/Bytes.vio lib/JV.vio model/GSSToken.vio
proofs/GSSTokenProofs.vos proofs/GSSTokenProofs.vok proofs/GSSTokenProofs.required_vos: proofs/GSSTokenProofs.v lib/Bytes.vos lib/JV.vos model/GSSToken.vos
proofs/CryptoBasic.vo proofs/CryptoBasic.glob proofs/CryptoBasic.v.beautified proofs/CryptoBasic.required_vo: proofs/CryptoBasic.v lib/Bytes.vo lib/JV.vo prim/SHA1.vo prim/SHA256.vo prim/SHA512.vo prim/MD4.vo prim/MD5.vo prim/HMAC.vo prim/PBKDF2.vo prim/CBC.vo prim/AES.vo prim/DES.vo prim/RC4.vo model/Crypto.vo
proofs/CryptoBasic.vio: proofs/CryptoBasic.v lib/Bytes.vio lib/JV.vio prim/SHA1.vio prim/SHA256.vio prim/SHA512.vio prim/MD4.vio prim/MD5.vio prim/HMAC.vio prim/PBKDF2.vio prim/CBC.vio prim/AES.vio prim/DES.vio prim/RC4.vio model/Crypto.vio
proofs/CryptoBasic.vos proofs/CryptoBasic.vok proofs/CryptoBasic.required_vos: proofs/CryptoBasic.v lib/Bytes.vos lib/JV.vos prim/SHA1.vos prim/SHA256.vos prim/SHA512.vos prim/MD4.vos prim/MD5.vos prim/HMAC.vos prim/PBKDF2.vos prim/CBC.vos prim/AES.vos prim/DES.vos prim/RC4.vos model/Crypto.vos
proofs/CryptoKeys.vo proofs/CryptoKeys.glob proofs/CryptoKeys.v.beautified proofs/CryptoKeys.required_vo: proofs/CryptoKeys.v lib/Bytes.vo lib/JV.vo prim/HMAC.vo model/Crypto.vo model/PAData.vo
proofs/CryptoKeys.vio: proofs/CryptoKeys.v lib/Bytes.vio lib/JV.vio prim/HMAC.vio model/Crypto.vio model/PAData.vio
proofs/CryptoKeys.vos proofs/CryptoKeys.vok proofs/CryptoKeys.required_vos: proofs/CryptoKeys.v lib/Bytes.vos lib/JV.vos prim/HMAC.vos model/Crypto.vos model/PAData.vos
prim/AESInverse.vo prim/AESInverse.glob prim/AESInverse.v.beautified prim/AESInverse.required_vo: prim/AESInverse.v lib/Bytes.vo prim/CBC.vo prim/AES.vo
prim/AESInverse.vio: prim/AESInverse.v lib/Bytes.vio prim/CBC.vio prim/AES.vio
prim/AESInverse.vos prim/AESInverse.vok prim/AESInverse.required_vos: prim/AESInverse.v lib/Bytes.vos prim/CBC.vos prim/AES.vos
prim/DESInverse.vo prim/DESInverse.glob prim/DESInverse.v.beautified prim/DESInverse.required_vo: prim/DESInverse.v lib/Bytes.vo prim/DES.vo
prim/DESInverse.vio: prim/DESInverse.v lib/Bytes.vio prim/DES.vio
prim/DESInverse.vos prim/DESInverse.vok prim/DESInverse.required_vos: prim/DESInverse.v lib/Bytes.vos prim/DES.vos
proofs/CBCGuarded.vo proofs/CBCGuarded.glob proofs/CBCGuarded.v.beautified proofs/CBCGuarded.required_vo: proofs/CBCGuarded.v lib/Bytes.vo prim/CBC.vo model/Crypto.vo
proofs/CBCGuarded.vio: proofs/CBCGuarded.v lib/Bytes.vio prim/CBC.vio model/Crypto.vio
proofs/CBCGuarded.vos proofs/CBCGuarded.vok proofs/CBCGuarded.required_vos: proofs/CBCGuarded.v lib/Bytes.vos prim/CBC.vos model/Crypto.vos
proofs/CTSProofs.vo proofs/CTSProofs.glob proofs/CTSProofs.v.beautified proofs/CTSProofs.required_vo: proofs/CTSProofs.v lib/Bytes.vo lib/JV.vo prim/CBC.vo model/Crypto.vo proofs/CBCGuarded.vo
proofs/CTSProofs.vio: proofs/CTSProofs.v lib/Bytes.vio lib/JV.vio prim/CBC.vio model/Crypto.vio proofs/CBCGuarded.vio
proofs/CTSProofs.vos proofs/CTSProofs.vok proofs/CTSProofs.required_vos: proofs/CTSProofs.v lib/Bytes.vos lib/JV.vos prim/CBC.vos model/Crypto.vos proofs/CBCGuarded.vos
proofs/CryptoWf.vo proofs/CryptoWf.glob proofs/CryptoWf.v.beautified proofs/CryptoWf.required_vo: proofs/CryptoWf.v lib/Bytes.vo lib/JV.vo prim/HashCommon.vo prim/SHA1.vo prim/SHA256.vo prim/SHA512.vo prim/MD5.vo prim/HMAC.vo prim/AES.vo prim/AESInverse.vo prim/CBC.vo model/Crypto.vo proofs/CBCGuarded.vo
proofs/CryptoWf.vio: proofs/CryptoWf.v lib/Bytes.vio lib/JV.vio prim/HashCommon.vio prim/SHA1.vio prim/SHA256.vio prim/SHA512.vio prim/MD5.vio prim/HMAC.vio prim/AES.vio prim/AESInverse.vio prim/CBC.vio model/Crypto.vio proofs/CBCGuarded.vio
proofs/CryptoWf.vos proofs/CryptoWf.vok proofs/CryptoWf.required_vos: proofs/CryptoWf.v lib/Bytes.vos lib/JV.vos prim/HashCommon.vos prim/SHA1.vos prim/SHA256.vos prim/SHA512.vos prim/MD5.vos prim/HMAC.vos prim/AES.vos prim/AESInverse.vos prim/CBC.vos model/Crypto.vos proofs/CBCGuarded.vos
proofs/CryptoRoundTrip.vo proofs/CryptoRoundTrip.glob proofs/CryptoRoundTrip.v.beautified proofs/CryptoRoundTrip.required_vo: proofs/CryptoRoundTrip.v lib/Bytes.vo lib/JV.vo prim/CBC.vo prim/HMAC.vo prim/RC4.vo prim/AES.vo prim/DES.vo prim/AESInverse.vo prim/DESInverse.vo model/Crypto.vo proofs/CryptoBasic.vo proofs/CBCGuarded.vo proofs/CTSProofs.vo proofs/CryptoWf.vo
proofs/CryptoRoundTrip.vio: proofs/CryptoRoundTrip.v lib/Bytes.vio lib/JV.vio prim/CBC.vio prim/HMAC.vio prim/RC4.vio prim/AES.vio prim/DES.vio prim/AESInverse.vio prim/DESInverse.vio model/Crypto.vio proofs/CryptoBasic.vio proofs/CBCGuarded.vio proofs/CTSProofs.vio proofs/CryptoWf.vio
proofs/CryptoRoundTrip.vos proofs/CryptoRoundTrip.vok proofs/CryptoRoundTrip.required_vos: proofs/CryptoRoundTrip.v lib/Bytes.vos lib/JV.vos prim/CBC.vos prim/HMAC.vos prim/RC4.vos prim/AES.vos prim/DES.vos prim/AESInverse.vos prim/DESInverse.vos model/Crypto.vos proofs/CryptoBasic.vos proofs/CBCGuarded.vos proofs/CTSProofs.vos proofs/CryptoWf.vos
proofs/ReplayProofs.vo proofs/ReplayProofs.glob proofs/ReplayProofs.v.beautified proofs/ReplayProofs.required_vo: proofs/ReplayProofs.v lib/Bytes.vo lib/JV.vo model/Replay.vo
proofs/ReplayProofs.vio: proofs/ReplayProofs.v lib/Bytes.vio lib/JV.vio model/Replay.vio
proofs/ReplayProofs.vos proofs/ReplayProofs.vok proofs/ReplayProofs.required_vos: proofs/ReplayProofs.v lib/Bytes.vos lib/JV.vos model/Replay.vos
proofs/NetworkProofs.vo proofs/NetworkProofs.glob proofs/NetworkProofs.v.beautified proofs/NetworkProofs.required_vo: proofs/NetworkProofs.v lib/Bytes.vo lib/JV.vo model/Network.vo
proofs/NetworkProofs.vio: proofs/NetworkProofs.v lib/Bytes.vio lib/JV.vio model/Network.vio
proofs/NetworkProofs.vos proofs/NetworkProofs.vok proofs/NetworkProofs.required_vos: proofs/NetworkProofs.v lib/Bytes.vos lib/JV.vos model/Network.vos
proofs/APReqProofs.vo proofs/APReqProofs.glob proofs/APReqProofs.v.beautified proofs/APReqProofs.required_vo: proofs/APReqProofs.v lib/Bytes.vo lib/JV.vo model/Keytab.vo model/Crypto.vo model/Replay.vo model/APReq.vo proofs/ReplayProofs.vo proofs/CryptoBasic.vo
proofs/APReqProofs.vio: proofs/APReqProofs.v lib/Bytes.vio lib/JV.vio model/Keytab.vio model/Crypto.vio model/Replay.vio model/APReq.vio proofs/ReplayProofs.vio proofs/CryptoBasic.vio
proofs/APReqProofs.vos proofs/APReqProofs.vok proofs/APReqProofs.required_vos: proofs/APReqProofs.v lib/Bytes.vos lib/JV.vos model/Keytab.vos model/Crypto.vos model/Replay.vos model/APReq.vos proofs/ReplayProofs.vos proofs/CryptoBasic.vos
proofs/SpnegoProofs.vo proofs/SpnegoProofs.glob proofs/SpnegoProofs.v.beautified proofs/SpnegoProofs.required_vo: proofs/SpnegoProofs.v lib/Bytes.vo lib/JV.vo model/APReq.vo model/Spnego.vo
proofs/SpnegoProofs.vio: proofs/SpnegoProofs.v lib/Bytes.vio lib/JV.vio model/APReq.vio model/Spnego.vio
proofs/SpnegoProofs.vos proofs/SpnegoProofs.vok proofs/SpnegoProofs.required_vos: proofs/SpnegoProofs.v lib/Bytes.vos lib/JV.vos model/APReq.vos model/Spnego.vos
proofs/HttpClientProofs.vo proofs/HttpClientProofs.glob proofs/HttpClientProofs.v.beautified proofs/HttpClientProofs.required_vo: proofs/HttpClientProofs.v lib/Bytes.vo lib/JV.vo model/HttpClient.vo
proofs/HttpClientProofs.vio: proofs/HttpClientProofs.v lib/Bytes.vio lib/JV.vio model/HttpClient.vio
proofs/HttpClientProofs.vos proofs/HttpClientProofs.vok proofs/HttpClientProofs.required_vos: proofs/HttpClientProofs.v lib/Bytes.vos lib/JV.vos model/HttpClient.vos
proofs/KDCRepProofs.vo proofs/KDCRepProofs.glob proofs/KDCRepProofs.v.beautified proofs/KDCRepProofs.required_vo: proofs/KDCRepProofs.v lib/Bytes.vo lib/JV.vo model/Keytab.vo model/Crypto.vo model/PAData.vo model/Replay.vo model/APReq.vo model/KDCRep.vo proofs/ReplayProofs.vo proofs/APReqProofs.vo
proofs/KDCRepProofs.vio: proofs/KDCRepProofs.v lib/Bytes.vio lib/JV.vio model/Keytab.vio model/Crypto.vio model/PAData.vio model/Replay.vio model/APReq.vio model/KDCRep.vio proofs/ReplayProofs.vio proofs/APReqProofs.vio
proofs/KDCRepProofs.vos proofs/KDCRepProofs.vok proofs/KDCRepProofs.required_vos: proofs/KDCRepProofs.v lib/Bytes.vos lib/JV.vos model/Keytab.vos model/Crypto.vos model/PAData.vos model/Replay.vos model/APReq.vos model/KDCRep.vos proofs/ReplayProofs.vos proofs/APReqProofs.vos
proofs/ClientSMProofs.vo proofs/ClientSMProofs.glob proofs/ClientSMProofs.v.beautified proofs/ClientSMProofs.required_vo: proofs/ClientSMProofs.v lib/Bytes.vo lib/JV.vo model/ClientSM.vo
proofs/ClientSMProofs.vio: proofs/ClientSMProofs.v lib/Bytes.vio lib/JV.vio model/ClientSM.vio
proofs/ClientSMProofs.vos proofs/ClientSMProofs.vok proofs/ClientSMProofs.required_vos: proofs/ClientSMProofs.v lib/Bytes.vos lib/JV.vos model/ClientSM.vos
proofs/Krb5ConfResolve.vo proofs/Krb5ConfResolve.glob proofs/Krb5ConfResolve.v.beautified proofs/Krb5ConfResolve.required_vo: proofs/Krb5ConfResolve.v lib/Bytes.vo lib/GoString.vo model/Krb5Conf.vo
proofs/Krb5ConfResolve.vio: proofs/Krb5ConfResolve.v lib/Bytes.vio lib/GoString.vio model/Krb5Conf.vio
proofs/Krb5ConfResolve.vos proofs/Krb5ConfResolve.vok proofs/Krb5ConfResolve.required_vos: proofs/Krb5ConfResolve.v lib/Bytes.vos lib/GoString.vos model/Krb5Conf.vos
proofs/Krb5ConfValues.vo proofs/Krb5ConfValues.glob proofs/Krb5ConfValues.v.beautified proofs/Krb5ConfValues.required_vo: proofs/Krb5ConfValues.v lib/Bytes.vo lib/GoString.vo model/Krb5Conf.vo
proofs/Krb5ConfValues.vio: proofs/Krb5ConfValues.v lib/Bytes.vio lib/GoString.vio model/Krb5Conf.vio
proofs/Krb5ConfValues.vos proofs/Krb5ConfValues.vok proofs/Krb5ConfValues.required_vos: proofs/Krb5ConfValues.v lib/Bytes.vos lib/GoString.vos model/Krb5Conf.vos
proofs/Krb5ConfParse.vo proofs/Krb5ConfParse.glob proofs/Krb5ConfParse.v.beautified proofs/Krb5ConfParse.required_vo: proofs/Krb5ConfParse.v lib/Bytes.vo lib/GoString.vo model/Krb5Conf.vo proofs/Krb5ConfValues.vo
proofs/Krb5ConfParse.vio: proofs/Krb5ConfParse.v lib/Bytes.vio lib/GoString.vio model/Krb5Conf.vio proofs/Krb5ConfValues.vio
proofs/Krb5ConfParse.vos proofs/Krb5ConfParse.vok proofs/Krb5ConfParse.required_vos: proofs/Krb5ConfParse.v lib/Bytes.vos lib/GoString.vos model/Krb5Conf.vos proofs/Krb5ConfValues.vos
proofs/HostsProofs.vo proofs/HostsProofs.glob proofs/HostsProofs.v.beautified proofs/HostsProofs.required_vo: proofs/HostsProofs.v lib/Bytes.vo lib/GoString.vo model/Krb5Conf.vo model/Hosts.vo
proofs/HostsProofs.vio: proofs/HostsProofs.v lib/Bytes.vio lib/GoString.vio model/Krb5Conf.vio model/Hosts.vio
proofs/HostsProofs.vos proofs/HostsProofs.vok proofs/HostsProofs.required_vos: proofs/HostsProofs.v lib/Bytes.vos lib/GoString.vos model/Krb5Conf.vos model/Hosts.vos
proofs/LockProofs.vo proofs/LockProofs.glob proofs/LockProofs.v.beautified proofs/LockProofs.required_vo: proofs/LockProofs.v model/LockModel.vo
proofs/LockProofs.vio: proofs/LockProofs.v model/LockModel.vio
proofs/LockProofs.vos proofs/LockProofs.vok proofs/LockProofs.required_vos: proofs/LockProofs.v model/LockModel.vos
proofs/DERBasic.vo proofs/DERBasic.glob proofs/DERBasic.v.beautified proofs/DERBasic.required_vo: proofs/DERBasic.v lib/Bytes.vo model/DER.vo
proofs/DERBasic.vio: proofs/DERBasic.v lib/Bytes.vio model/DER.vio
proofs/DERBasic.vos proofs/DERBasic.vok proofs/DERBasic.required_vos: proofs/DERBasic.v lib/Bytes.vos model/DER.vos
proofs/DERTime.vo proofs/DERTime.glob proofs/DERTime.v.beautified proofs/DERTime.required_vo: proofs/DERTime.v lib/Bytes.vo model/DER.vo proofs/DERBasic.vo
proofs/DERTime.vio: proofs/DERTime.v lib/Bytes.vio model/DER.vio proofs/DERBasic.vio
proofs/DERTime.vos proofs/DERTime.vok proofs/DERTime.required_vos: proofs/DERTime.v lib/Bytes.vos model/DER.vos proofs/DERBasic.vos
proofs/DEROid.vo proofs/DEROid.glob proofs/DEROid.v.beautified proofs/DEROid.required_vo: proofs/DEROid.v lib/Bytes.vo model/DER.vo proofs/DERBasic.vo
proofs/DEROid.vio: proofs/DEROid.v lib/Bytes.vio model/DER.vio proofs/DERBasic.vio
proofs/DEROid.vos proofs/DEROid.vok proofs/DEROid.required_vos: proofs/DEROid.v lib/Bytes.vos model/DER.vos proofs/DERBasic.vos
proofs/DERProofs.vo proofs/DERProofs.glob proofs/DERProofs.v.beautified proofs/DERProofs.required_vo: proofs/DERProofs.v lib/Bytes.vo lib/JV.vo model/Schema.vo model/DER.vo model/DERCodec.vo proofs/DERBasic.vo proofs/DERTime.vo proofs/DEROid.vo
proofs/DERProofs.vio: proofs/DERProofs.v lib/Bytes.vio lib/JV.vio model/Schema.vio model/DER.vio model/DERCodec.vio proofs/DERBasic.vio proofs/DERTime.vio proofs/DEROid.vio
proofs/DERProofs.vos proofs/DERProofs.vok proofs/DERProofs.required_vos: proofs/DERProofs.v lib/Bytes.vos lib/JV.vos model/Schema.vos model/DER.vos model/DERCodec.vos proofs/DERBasic.vos proofs/DERTime.vos proofs/DEROid.vos
proofs/DERCanon.vo proofs/DERCanon.glob proofs/DERCanon.v.beautified proofs/DERCanon.required_vo: proofs/DERCanon.v lib/Bytes.vo lib/JV.vo model/Schema.vo model/DER.vo model/DERCodec.vo proofs/DERBasic.vo proofs/DERTime.vo proofs/DEROid.vo proofs/DERProofs.vo
proofs/DERCanon.vio: proofs/DERCanon.v lib/Bytes.vio lib/JV.vio model/Schema.vio model/DER.vio model/DERCodec.vio proofs/DERBasic.vio proofs/DERTime.vio proofs/DEROid.vio proofs/DERProofs.vio
proofs/DERCanon.vos proofs/DERCanon.vok proofs/DERCanon.required_vos: proofs/DERCanon.v lib/Bytes.vos lib/JV.vos model/Schema.vos model/DER.vos model/DERCodec.vos proofs/DERBasic.vos proofs/DERTime.vos proofs/DEROid.vos proofs/DERProofs.vos
proofs/DiagProofs.vo proofs/DiagProofs.glob proofs/DiagProofs.v.beautified proofs/DiagProofs.required_vo: proofs/DiagProofs.v lib/Bytes.vo lib/JV.vo model/Diag.vo
proofs/DiagProofs.vio: proofs/DiagProofs.v lib/Bytes.vio lib/JV.vio model/Diag.vio
proofs/DiagProofs.vos proofs/DiagProofs.vok proofs/DiagProofs.required_vos: proofs/DiagProofs.v lib/Bytes.vos lib/JV.vos model/Diag.vos
proofs/LenOctetsProofs.vo proofs/LenOctetsProofs.glob proofs/LenOctetsProofs.v.beautified proofs/LenOctetsProofs.required_vo: proofs/LenOctetsProofs.v lib/Bytes.vo lib/JV.vo model/LenOctets.vo model/DER.vo
proofs/LenOctetsProofs.vio: proofs/LenOctetsProofs.v lib/Bytes.vio lib/JV.vio model/LenOctets.vio model/DER.vio
proofs/LenOctetsProofs.vos proofs/LenOctetsProofs.vok proofs/LenOctetsProofs.required_vos: proofs/LenOctetsProofs.v lib/Bytes.vos lib/JV.vos model/LenOctets.vos model/DER.vos
proofs/FlagsProofs.vo proofs/FlagsProofs.glob proofs/FlagsProofs.v.beautified proofs/FlagsProofs.required_vo: proofs/FlagsProofs.v lib/Bytes.vo lib/JV.vo model/Flags.vo
proofs/FlagsProofs.vio: proofs/FlagsProofs.v lib/Bytes.vio lib/JV.vio model/Flags.vio
proofs/FlagsProofs.vos proofs/FlagsProofs.vok proofs/FlagsProofs.required_vos: proofs/FlagsProofs.v lib/Bytes.vos lib/JV.vos model/Flags.vos
proofs/SchemaRefineProofs.vo proofs/SchemaRefineProofs.glob proofs/SchemaRefineProofs.v.beautified proofs/SchemaRefineProofs.required_vo: proofs/SchemaRefineProofs.v lib/Bytes.vo lib/JV.vo model/Schema.vo model/DER.vo model/DERCodec.vo model/SchemaRefine.vo proofs/DERBasic.vo proofs/DERProofs.vo
proofs/SchemaRefineProofs.vio: proofs/SchemaRefineProofs.v lib/Bytes.vio lib/JV.vio model/Schema.vio model/DER.vio model/DERCodec.vio model/SchemaRefine.vio proofs/DERBasic.vio proofs/DERProofs.vio
proofs/SchemaRefineProofs.vos proofs/SchemaRefineProofs.vok proofs/SchemaRefineProofs.required_vos: proofs/SchemaRefineProofs.v lib/Bytes.vos lib/JV.vos model/Schema.vos model/DER.vos model/DERCodec.vos model/SchemaRefine.vos proofs/DERBasic.vos proofs/DERProofs.vos
proofs/FramingProofs.vo proofs/FramingProofs.glob proofs/FramingProofs.v.beautified proofs/FramingProofs.required_vo: proofs/FramingProofs.v lib/Bytes.vo lib/JV.vo model/Schema.vo model/DER.vo model/DERCodec.vo model/Framing.vo proofs/DERBasic.vo proofs/DEROid.vo proofs/DERProofs.vo
proofs/FramingProofs.vio: proofs/FramingProofs.v lib/Bytes.vio lib/JV.vio model/Schema.vio model/DER.vio model/DERCodec.vio model/Framing.vio proofs/DERBasic.vio proofs/DEROid.vio proofs/DERProofs.vio
proofs/FramingProofs.vos proofs/FramingProofs.vok proofs/FramingProofs.required_vos: proofs/FramingProofs.v lib/Bytes.vos lib/JV.vos model/Schema.vos model/DER.vos model/DERCodec.vos model/Framing.vos proofs/DERBasic.vos proofs/DEROid.vos proofs/DERProofs.vos
proofs/MsgProofs.vo proofs/MsgProofs.glob proofs/MsgProofs.v.beautified proofs/MsgProofs.required_vo: proofs/MsgProofs.v lib/Bytes.vo lib/JV.vo model/Schema.vo model/DER.vo model/DERCodec.vo model/RFCSchemas.vo model/LenOctets.vo model/Msg.vo proofs/DERBasic.vo proofs/DERProofs.vo proofs/LenOctetsProofs.vo
proofs/MsgProofs.vio: proofs/MsgProofs.v lib/Bytes.vio lib/JV.vio model/Schema.vio model/DER.vio model/DERCodec.vio model/RFCSchemas.vio model/LenOctets.vio model/Msg.vio proofs/DERBasic.vio proofs/DERProofs.vio proofs/LenOctetsProofs.vio
proofs/MsgProofs.vos proofs/MsgProofs.vok proofs/MsgProofs.required_vos: proofs/MsgProofs.v lib/Bytes.vos lib/JV.vos model/Schema.vos model/DER.vos model/DERCodec.vos model/RFCSchemas.vos model/LenOctets.vos model/Msg.vos proofs/DERBasic.vos proofs/DERProofs.vos proofs/LenOctetsProofs.vos
props/C09.vo props/C09.glob props/C09.v.beautified props/C09.required_vo: props/C09.v lib/Bytes.vo lib/JV.vo model/Keytab.vo model/Crypto.vo model/PAData.vo model/Replay.vo model/APReq.vo model/KDCRep.vo proofs/KDCRepProofs.vo
props/C09.vio: props/C09.v lib/Bytes.vio lib/JV.vio model/Keytab.vio model/Crypto.vio model/PAData.vio model/Replay.vio model/APReq.vio model/KDCRep.vio proofs/KDCRepProofs.vio
props/C09.vos props/C09.vok props/C09.required_vos: props/C09.v lib/Bytes.vos lib/JV.vos model/Keytab.vos model/Crypto.vos model/PAData.vos model/Replay.vos model/APReq.vos model/KDCRep.vos proofs/KDCRepProofs.vos
props/C10.vo props/C10.glob props/C10.v.beautified props/C10.required_vo: props/C10.v lib/Bytes.vo lib/JV.vo model/ClientSM.vo proofs/ClientSMProofs.vo
props/C10.vio: props/C10.v lib/Bytes.vio lib/JV.vio model/ClientSM.vio proofs/ClientSMProofs.vio
props/C10.vos props/C10.vok props/C10.required_vos: props/C10.v lib/Bytes.vos lib/JV.vos model/ClientSM.vos proofs/ClientSMProofs.vos
props/C11.vo props/C11.glob props/C11.v.beautified props/C11.required_vo: props/C11.v lib/Bytes.vo lib/JV.vo model/LockModel.vo model/ClientSM.vo model/Hosts.vo proofs/LockProofs.vo proofs/ClientSMProofs.vo proofs/HostsProofs.vo
props/C11.vio: props/C11.v lib/Bytes.vio lib/JV.vio model/LockModel.vio model/ClientSM.vio model/Hosts.vio proofs/LockProofs.vio proofs/ClientSMProofs.vio proofs/HostsProofs.vio
props/C11.vos props/C11.vok props/C11.required_vos: props/C11.v lib/Bytes.vos lib/JV.vos model/LockModel.vos model/ClientSM.vos model/Hosts.vos proofs/LockProofs.vos proofs/ClientSMProofs.vos proofs/HostsProofs.vos
props/C12.vo props/C12.glob props/C12.v.beautified props/C12.required_vo: props/C12.v lib/Bytes.vo lib/JV.vo model/Network.vo proofs/NetworkProofs.vo
props/C12.vio: props/C12.v lib/Bytes.vio lib/JV.vio model/Network.vio proofs/NetworkProofs.vio
props/C12.vos props/C12.vok props/C12.required_vos: props/C12.v lib/Bytes.vos lib/JV.vos model/Network.vos proofs/NetworkProofs.vos
props/C13.vo props/C13.glob props/C13.v.beautified props/C13.required_vo: props/C13.v lib/Bytes.vo lib/JV.vo model/Schema.vo model/DER.vo model/DERCodec.vo model/SchemaRefine.vo model/LenOctets.vo model/Flags.vo model/Framing.vo model/RFCSchemas.vo model/Msg.vo proofs/DERBasic.vo proofs/DERProofs.vo proofs/DERCanon.vo proofs/SchemaRefineProofs.vo proofs/LenOctetsProofs.vo proofs/FlagsProofs.vo proofs/FramingProofs.vo proofs/MsgProofs.vo
props/C13.vio: props/C13.v lib/Bytes.vio lib/JV.vio model/Schema.vio model/DER.vio model/DERCodec.vio model/SchemaRefine.vio model/LenOctets.vio model/Flags.vio model/Framing.vio model/RFCSchemas.vio model/Msg.vio proofs/DERBasic.vio proofs/DERProofs.vio proofs/DERCanon.vio proofs/SchemaRefineProofs.vio proofs/LenOctetsProofs.vio proofs/FlagsProofs.vio proofs/FramingProofs.vio proofs/MsgProofs.vio
props/C13.vos props/C13.vok props/C13.required_vos: props/C13.v lib/Bytes.vos lib/JV.vos model/Schema.vos model/DER.vos model/DERCodec.vos model/SchemaRefine.vos model/LenOctets.vos model/Flags.vos model/Framing.vos model/RFCSchemas.vos model/Msg.vos proofs/DERBasic.vos proofs/DERProofs.vos proofs/DERCanon.vos proofs/SchemaRefineProofs.vos proofs/LenOctetsProofs.vos proofs/FlagsProofs.vos proofs/FramingProofs.vos proofs/MsgProofs.vos
props/C14.vo props/C14.glob props/C14.v.beautified props/C14.required_vo: props/C14.v lib/Bytes.vo lib/JV.vo model/Keytab.vo proofs/KeytabLookup.vo proofs/KeytabParse.vo proofs/KeytabTotal.vo
props/C14.vio: props/C14.v lib/Bytes.vio lib/JV.vio model/Keytab.vio proofs/KeytabLookup.vio proofs/KeytabParse.vio proofs/KeytabTotal.vio
props/C14.vos props/C14.vok props/C14.required_vos: props/C14.v lib/Bytes.vos lib/JV.vos model/Keytab.vos proofs/KeytabLookup.vos proofs/KeytabParse.vos proofs/KeytabTotal.vos
props/C15.vo props/C15.glob props/C15.v.beautified props/C15.required_vo: props/C15.v lib/Bytes.vo lib/JV.vo model/CCache.vo proofs/CCacheParse.vo proofs/CCacheLookup.vo proofs/CCacheTotal.vo
props/C15.vio: props/C15.v lib/Bytes.vio lib/JV.vio model/CCache.vio proofs/CCacheParse.vio proofs/CCacheLookup.vio proofs/CCacheTotal.vio
props/C15.vos props/C15.vok props/C15.required_vos: props/C15.v lib/Bytes.vos lib/JV.vos model/CCache.vos proofs/CCacheParse.vos proofs/CCacheLookup.vos proofs/CCacheTotal.vos
props/C16.vo props/C16.glob props/C16.v.beautified props/C16.required_vo: props/C16.v lib/Bytes.vo lib/JV.vo lib/GoString.vo model/Krb5Conf.vo model/Hosts.vo proofs/Krb5ConfResolve.vo proofs/Krb5ConfValues.vo proofs/Krb5ConfParse.vo proofs/HostsProofs.vo
props/C16.vio: props/C16.v lib/Bytes.vio lib/JV.vio lib/GoString.vio model/Krb5Conf.vio model/Hosts.vio proofs/Krb5ConfResolve.vio proofs/Krb5ConfValues.vio proofs/Krb5ConfParse.vio proofs/HostsProofs.vio
props/C16.vos props/C16.vok props/C16.required_vos: props/C16.v lib/Bytes.vos lib/JV.vos lib/GoString.vos model/Krb5Conf.vos model/Hosts.vos proofs/Krb5ConfResolve.vos proofs/Krb5ConfValues.vos proofs/Krb5ConfParse.vos proofs/HostsProofs.vos
props/C17.vo props/C17.glob props/C17.v.beautified props/C17.required_vo: props/C17.v lib/Bytes.vo lib/JV.vo model/GSSToken.vo proofs/GSSTokenProofs.vo
props/C17.vio: props/C17.v lib/Bytes.vio lib/JV.vio model/GSSToken.vio proofs/GSSTokenProofs.vio
props/C17.vos props/C17.vok props/C17.required_vos: props/C17.v lib/Bytes.vos lib/JV.vos model/GSSToken.vos proofs/GSSTokenProofs.vos
props/C18.vo props/C18.glob props/C18.v.beautified props/C18.required_vo: props/C18.v lib/Bytes.vo lib/JV.vo model/HttpClient.vo proofs/HttpClientProofs.vo
props/C18.vio: props/C18.v lib/Bytes.vio lib/JV.vio model/HttpClient.vio proofs/HttpClientProofs.vio
props/C18.vos props/C18.vok props/C18.required_vos: props/C18.v lib/Bytes.vos lib/JV.vos model/HttpClient.vos proofs/HttpClientProofs.vos
props/C20.vo props/C20.glob props/C20.v.beautified props/C20.required_vo: props/C20.v lib/Bytes.vo lib/JV.vo model/Diag.vo proofs/DiagProofs.vo
props/C20.vio: props/C20.v lib/Bytes.vio lib/JV.vio model/Diag.vio proofs/DiagProofs.vio
props/C20.vos props/C20.vok props/C20.required_vos: props/C20.v lib/Bytes.vos lib/JV.vos model/Diag.vos proofs/DiagProofs.vos
props/C01.vo props/C01.glob props/C01.v.beautified props/C01.required_vo: props/C01.v lib/Bytes.vo lib/JV.vo model/Keytab.vo model/Crypto.vo model/Replay.vo model/APReq.vo proofs/APReqProofs.vo
props/C01.vio: props/C01.v lib/Bytes.vio lib/JV.vio model/Keytab.vio model/Crypto.vio model/Replay.vio model/APReq.vio proofs/APReqProofs.vio
props/C01.vos props/C01.vok props/C01.required_vos: props/C01.v lib/Bytes.vos lib/JV.vos model/Keytab.vos model/Crypto.vos model/Replay.vos model/APReq.vos proofs/APReqProofs.vos
props/C02.vo props/C02.glob props/C02.v.beautified props/C02.required_vo: props/C02.v lib/Bytes.vo lib/JV.vo model/Replay.vo proofs/ReplayProofs.vo
props/C02.vio: props/C02.v lib/Bytes.vio lib/JV.vio model/Replay.vio proofs/ReplayProofs.vio
props/C02.vos props/C02.vok props/C02.required_vos: props/C02.v lib/Bytes.vos lib/JV.vos model/Replay.vos proofs/ReplayProofs.vos
props/C03.vo props/C03.glob props/C03.v.beautified props/C03.required_vo: props/C03.v lib/Bytes.vo lib/JV.vo model/APReq.vo model/Spnego.vo proofs/SpnegoProofs.vo
props/C03.vio: props/C03.v lib/Bytes.vio lib/JV.vio model/APReq.vio model/Spnego.vio proofs/SpnegoProofs.vio
props/C03.vos props/C03.vok props/C03.required_vos: props/C03.v lib/Bytes.vos lib/JV.vos model/APReq.vos model/Spnego.vos proofs/SpnegoProofs.vos
props/C04.vo props/C04.glob props/C04.v.beautified props/C04.required_vo: props/C04.v lib/Bytes.vo lib/JV.vo model/Keytab.vo model/CCache.vo model/Crypto.vo model/Krb5Conf.vo model/APReq.vo model/Flags.vo model/GSSToken.vo model/Spnego.vo proofs/KeytabTotal.vo proofs/KeytabParse.vo proofs/CCacheTotal.vo proofs/CryptoBasic.vo proofs/Krb5ConfParse.vo proofs/APReqProofs.vo proofs/FlagsProofs.vo
props/C04.vio: props/C04.v lib/Bytes.vio lib/JV.vio model/Keytab.vio model/CCache.vio model/Crypto.vio model/Krb5Conf.vio model/APReq.vio model/Flags.vio model/GSSToken.vio model/Spnego.vio proofs/KeytabTotal.vio proofs/KeytabParse.vio proofs/CCacheTotal.vio proofs/CryptoBasic.vio proofs/Krb5ConfParse.vio proofs/APReqProofs.vio proofs/FlagsProofs.vio
props/C04.vos props/C04.vok props/C04.required_vos: props/C04.v lib/Bytes.vos lib/JV.vos model/Keytab.vos model/CCache.vos model/Crypto.vos model/Krb5Conf.vos model/APReq.vos model/Flags.vos model/GSSToken.vos model/Spnego.vos proofs/KeytabTotal.vos proofs/KeytabParse.vos proofs/CCacheTotal.vos proofs/CryptoBasic.vos proofs/Krb5ConfParse.vos proofs/APReqProofs.vos proofs/FlagsProofs.vos
props/C05.vo props/C05.glob props/C05.v.beautified props/C05.required_vo: props/C05.v lib/Bytes.vo lib/JV.vo model/Crypto.vo prim/CBC.vo prim/RC4.vo proofs/CryptoBasic.vo proofs/CTSProofs.vo proofs/CryptoWf.vo proofs/CryptoRoundTrip.vo
props/C05.vio: props/C05.v lib/Bytes.vio lib/JV.vio model/Crypto.vio prim/CBC.vio prim/RC4.vio proofs/CryptoBasic.vio proofs/CTSProofs.vio proofs/CryptoWf.vio proofs/CryptoRoundTrip.vio
props/C05.vos props/C05.vok props/C05.required_vos: props/C05.v lib/Bytes.vos lib/JV.vos model/Crypto.vos prim/CBC.vos prim/RC4.vos proofs/CryptoBasic.vos proofs/CTSProofs.vos proofs/CryptoWf.vos proofs/CryptoRoundTrip.vos
props/C06.vo props/C06.glob props/C06.v.beautified props/C06.required_vo: props/C06.v lib/Bytes.vo lib/JV.vo model/Crypto.vo prim/CBC.vo prim/RC4.vo prim/HMAC.vo proofs/CryptoBasic.vo proofs/CryptoRoundTrip.vo
props/C06.vio: props/C06.v lib/Bytes.vio lib/JV.vio model/Crypto.vio prim/CBC.vio prim/RC4.vio prim/HMAC.vio proofs/CryptoBasic.vio proofs/CryptoRoundTrip.vio
props/C06.vos props/C06.vok props/C06.required_vos: props/C06.v lib/Bytes.vos lib/JV.vos model/Crypto.vos prim/CBC.vos prim/RC4.vos prim/HMAC.vos proofs/CryptoBasic.vos proofs/CryptoRoundTrip.vos
props/C07.vo props/C07.glob props/C07.v.beautified props/C07.required_vo: props/C07.v lib/Bytes.vo lib/JV.vo model/Crypto.vo proofs/CryptoBasic.vo
props/C07.vio: props/C07.v lib/Bytes.vio lib/JV.vio model/Crypto.vio proofs/CryptoBasic.vio
props/C07.vos props/C07.vok props/C07.required_vos: props/C07.v lib/Bytes.vos lib/JV.vos model/Crypto.vos proofs/CryptoBasic.vos
props/C08.vo props/C08.glob props/C08.v.beautified props/C08.required_vo: props/C08.v lib/Bytes.vo lib/JV.vo model/Crypto.vo model/PAData.vo proofs/CryptoKeys.vo
props/C08.vio: props/C08.v lib/Bytes.vio lib/JV.vio model/Crypto.vio model/PAData.vio proofs/CryptoKeys.vio
props/C08.vos props/C08.vok props/C08.required_vos: props/C08.v lib/Bytes.vos lib/JV.vos model/Crypto.vos model/PAData.vos proofs/CryptoKeys.vos
