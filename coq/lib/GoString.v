(* Gokrb5.lib.GoString — the functions of Go's strings / strconv / time / encoding/hex packages that
   v8/config uses, on byte strings (Go string = bytes).

   Domain.  TrimSpace, Fields and ToLower are Unicode-aware in Go; the definitions here agree with Go on
   strings whose bytes are all < 128 (ASCII) — [is_ascii] — and the model entry points answer Unmodelled on
   anything else.  Everything byte-oriented (Split, SplitN, Contains, Count, HasPrefix, HasSuffix,
   TrimSuffix, IndexAny with ASCII chars, Replace) is exact on all byte strings.
   time.ParseDuration is exact on strings without '.', without a leading sign and without non-ASCII bytes
   (so without the two micro-second spellings); outside that it answers DUnmodelled. *)
From Coq Require Import String Ascii.
From Gokrb5.lib Require Import Bytes.
Open Scope Z_scope.

Fixpoint bs (s : string) : bytes :=
  match s with
  | String a r => Z.of_N (N_of_ascii a) :: bs r
  | EmptyString => []
  end.
Arguments bs s%string.

Definition is_ascii (s : bytes) : bool := forallb (fun b => (0 <=? b) && (b <? 128)) s.

(* unicode.IsSpace restricted to ASCII: '\t' '\n' '\v' '\f' '\r' ' ' *)
Definition is_space (b : Z) : bool :=
  (b =? 9) || (b =? 10) || (b =? 11) || (b =? 12) || (b =? 13) || (b =? 32).
(* regexp \s = [\t\n\f\r ] (no vertical tab) *)
Definition is_re_space (b : Z) : bool :=
  (b =? 9) || (b =? 10) || (b =? 12) || (b =? 13) || (b =? 32).
Definition is_digit (b : Z) : bool := (48 <=? b) && (b <=? 57).

Fixpoint drop_while (p : Z -> bool) (s : bytes) : bytes :=
  match s with
  | c :: r => if p c then drop_while p r else s
  | [] => []
  end.
Fixpoint take_until (p : Z -> bool) (s : bytes) : bytes :=
  match s with
  | c :: r => if p c then [] else c :: take_until p r
  | [] => []
  end.

Definition trim_left (s : bytes) : bytes := drop_while is_space s.
Definition trim_right (s : bytes) : bytes := rev (drop_while is_space (rev s)).
Definition trim_space (s : bytes) : bytes := trim_right (trim_left s).

Definition contains_byte (c : Z) (s : bytes) : bool := existsb (Z.eqb c) s.
Definition count_byte (c : Z) (s : bytes) : nat := length (filter (Z.eqb c) s).

Fixpoint has_prefix (p s : bytes) : bool :=
  match p, s with
  | [], _ => true
  | x :: p', y :: s' => (x =? y) && has_prefix p' s'
  | _ :: _, [] => false
  end.
Definition has_suffix (p s : bytes) : bool := has_prefix (rev p) (rev s).
Fixpoint contains (p s : bytes) : bool :=
  has_prefix p s || match s with [] => false | _ :: r => contains p r end.
Definition trim_suffix (s p : bytes) : bytes :=
  if has_suffix p s then firstn (length s - length p) s else s.

(* strings.Cut on a one-byte separator *)
Fixpoint cut (c : Z) (s : bytes) : option (bytes * bytes) :=
  match s with
  | [] => None
  | x :: r => if x =? c then Some ([], r)
              else match cut c r with Some (a, b) => Some (x :: a, b) | None => None end
  end.

(* strings.Split(s, sep) with a one-byte separator: never empty *)
Fixpoint split_byte (c : Z) (s : bytes) : list bytes :=
  match s with
  | [] => [[]]
  | x :: r => if x =? c then [] :: split_byte c r
              else match split_byte c r with h :: t => (x :: h) :: t | [] => [[x]] end
  end.

(* strings.SplitN(s, sep, n) for n >= 0 (n = 0 gives nil) *)
Fixpoint splitn (c : Z) (n : nat) (s : bytes) : list bytes :=
  match n with
  | O => []
  | S O => [s]
  | S n' => match cut c s with None => [s] | Some (a, b) => a :: splitn c n' b end
  end.

(* the remainder of s after its k-th separator (s itself when there are fewer) = last element of SplitN(s, sep, k+1) *)
Fixpoint after_cuts (c : Z) (k : nat) (s : bytes) : bytes :=
  match k with
  | O => s
  | S k' => match cut c s with Some (_, b) => after_cuts c k' b | None => s end
  end.

Definition lower_byte (b : Z) : Z := if (65 <=? b) && (b <=? 90) then b + 32 else b.
Definition to_lower (s : bytes) : bytes := map lower_byte s.

(* strings.Fields / strings.FieldsFunc *)
Fixpoint fields_aux (p : Z -> bool) (s : bytes) (cur : bytes) : list bytes :=
  match s with
  | [] => match cur with [] => [] | _ => [rev cur] end
  | x :: r => if p x then match cur with [] => fields_aux p r [] | _ => rev cur :: fields_aux p r [] end
              else fields_aux p r (x :: cur)
  end.
Definition fields_by (p : Z -> bool) (s : bytes) : list bytes := fields_aux p s [].
Definition fields (s : bytes) : list bytes := fields_by is_space s.

(* strings.Replace(s, " ", "", -1) and strings.Replace(s, "0x", "", -1) *)
Definition remove_byte (c : Z) (s : bytes) : bytes := filter (fun b => negb (b =? c)) s.
Fixpoint remove_pair (a b : Z) (s : bytes) : bytes :=
  match s with
  | x :: r => match r with
              | y :: r' => if (x =? a) && (y =? b) then remove_pair a b r' else x :: remove_pair a b r
              | [] => [x]
              end
  | [] => []
  end.

(* ---- strconv ---- *)
Fixpoint digits_val (acc : Z) (s : bytes) : Z :=
  match s with [] => acc | c :: r => digits_val (acc * 10 + (c - 48)) r end.

(* strconv.ParseUint(s, 10, bits) *)
Definition parse_uint (bits : Z) (s : bytes) : option Z :=
  match s with
  | [] => None
  | _ => if forallb is_digit s then
           let v := digits_val 0 s in if v <? 2 ^ bits then Some v else None
         else None
  end.

(* strconv.ParseInt(s, 10, bits) *)
Definition parse_int (bits : Z) (s : bytes) : option Z :=
  match s with
  | [] => None
  | c :: r =>
    let '(neg, d) := if c =? 43 then (false, r) else if c =? 45 then (true, r) else (false, s) in
    match d with
    | [] => None
    | _ => if forallb is_digit d then
             let v := digits_val 0 d in
             if neg then (if v <=? 2 ^ (bits - 1) then Some (- v) else None)
             else (if v <? 2 ^ (bits - 1) then Some v else None)
           else None
    end
  end.

(* strconv.ParseBool *)
Definition true_spellings : list bytes := Eval cbv in [bs "1"; bs "t"; bs "T"; bs "TRUE"; bs "true"; bs "True"].
Definition false_spellings : list bytes := Eval cbv in [bs "0"; bs "f"; bs "F"; bs "FALSE"; bs "false"; bs "False"].
Definition parse_bool_go (s : bytes) : option bool :=
  if existsb (beq_bytes s) true_spellings then Some true
  else if existsb (beq_bytes s) false_spellings then Some false
  else None.

(* encoding/hex.DecodeString *)
Definition hex_digit (c : Z) : option Z :=
  if (48 <=? c) && (c <=? 57) then Some (c - 48)
  else if (97 <=? c) && (c <=? 102) then Some (c - 87)
  else if (65 <=? c) && (c <=? 70) then Some (c - 55)
  else None.
Fixpoint hex_decode (s : bytes) : option bytes :=
  match s with
  | [] => Some []
  | a :: r => match r with
              | b :: r' => match hex_digit a, hex_digit b, hex_decode r' with
                           | Some x, Some y, Some t => Some (16 * x + y :: t)
                           | _, _, _ => None
                           end
              | [] => None
              end
  end.

(* ---- time.ParseDuration ---- *)
Inductive dres := DOk (ns : Z) | DErr | DUnmodelled.

Fixpoint lookup {V} (k : bytes) (m : list (bytes * V)) : option V :=
  match m with
  | [] => None
  | (k', v) :: r => if beq_bytes k k' then Some v else lookup k r
  end.

(* unitMap without the two non-ASCII spellings of the micro-second *)
Definition unit_table : list (bytes * Z) :=
  Eval cbv in [(bs "ns", 1); (bs "us", 1000); (bs "ms", 1000000); (bs "s", 1000000000);
               (bs "m", 60000000000); (bs "h", 3600000000000)].
Definition unit_ns (u : bytes) : option Z := lookup u unit_table.

(* leadingInt: the digits are consumed one by one with two overflow checks *)
Fixpoint leading_int (x : Z) (s : bytes) : option (Z * bytes) :=
  match s with
  | c :: r => if is_digit c then
                if x >? 2 ^ 63 / 10 then None
                else let x' := x * 10 + (c - 48) in
                     if x' >? 2 ^ 63 then None else leading_int x' r
              else Some (x, s)
  | [] => Some (x, [])
  end.

(* one iteration per component; fuel = length of the string (each iteration consumes at least 2 bytes) *)
Fixpoint pd_loop (fuel : nat) (d : Z) (s : bytes) : dres :=
  match s with
  | [] => if d >? 2 ^ 63 - 1 then DErr else DOk d
  | c :: _ =>
    match fuel with
    | O => DErr
    | S fuel' =>
      if negb (is_digit c) then DErr
      else match leading_int 0 s with
           | None => DErr
           | Some (v, s1) =>
             let u := take_until is_digit s1 in
             let s2 := drop_while (fun b => negb (is_digit b)) s1 in
             match u with
             | [] => DErr
             | _ => match unit_ns u with
                    | None => DErr
                    | Some unit =>
                      if v >? 2 ^ 63 / unit then DErr
                      else let d' := d + v * unit in
                           if d' >? 2 ^ 63 then DErr else pd_loop fuel' d' s2
                    end
             end
           end
    end
  end.

Definition go_parse_duration (s : bytes) : dres :=
  if negb (is_ascii s) || contains_byte 46 s || has_prefix [43] s || has_prefix [45] s then DUnmodelled
  else if beq_bytes s [48] then DOk 0
  else match s with
       | [] => DErr
       | _ => pd_loop (length s) 0 s
       end.

(* ============================ lemmas ============================ *)

Lemma cut_spec c s a b : cut c s = Some (a, b) -> s = a ++ c :: b /\ ~ In c a.
Proof.
  revert a b; induction s as [|x s IH]; intros a b; cbn; [discriminate|].
  destruct (Z.eqb_spec x c) as [->|Hne].
  - intros H; inversion H; subst; cbn; auto.
  - destruct (cut c s) as [[a' b']|]; [|discriminate].
    intros H; inversion H; subst. destruct (IH _ _ eq_refl) as [-> Hn].
    split; [reflexivity|]. cbn; intros [E|E]; [congruence|auto].
Qed.

Lemma cut_none c s : cut c s = None <-> ~ In c s.
Proof.
  induction s as [|x s IH]; cbn; [tauto|].
  destruct (Z.eqb_spec x c) as [->|Hne].
  - split; [discriminate|]. intros H; exfalso; apply H; auto.
  - destruct (cut c s) as [[a b]|].
    + split; [discriminate|]. intros H; exfalso.
      assert (~ In c s) by (intros E; apply H; auto). apply IH in H0; discriminate.
    + split; [|reflexivity]. intros _ [E|E]; [congruence|]. apply IH in E; auto.
Qed.

Lemma cut_app c a b : ~ In c a -> cut c (a ++ c :: b) = Some (a, b).
Proof.
  induction a as [|x a IH]; cbn; intros H.
  - now rewrite Z.eqb_refl.
  - destruct (Z.eqb_spec x c) as [->|Hne]; [exfalso; apply H; auto|].
    rewrite IH; [reflexivity|]. intros E; apply H; auto.
Qed.

Lemma has_prefix_spec p s : has_prefix p s = true <-> exists t, s = p ++ t.
Proof.
  revert s; induction p as [|x p IH]; intros s; cbn.
  - split; [eauto|reflexivity].
  - destruct s as [|y s].
    + split; [discriminate|]. intros [t E]; discriminate.
    + rewrite andb_true_iff, Z.eqb_eq, IH. split.
      * intros [-> [t ->]]; eauto.
      * intros [t E]; inversion E; subst; eauto.
Qed.

Lemma has_suffix_spec p s : has_suffix p s = true <-> exists t, s = t ++ p.
Proof.
  unfold has_suffix. rewrite has_prefix_spec. split.
  - intros [t E]. exists (rev t). apply (f_equal (@rev Z)) in E.
    rewrite rev_involutive, rev_app_distr, rev_involutive in E. exact E.
  - intros [t ->]. exists (rev t). now rewrite rev_app_distr.
Qed.

Lemma trim_suffix_app t p : trim_suffix (t ++ p) p = t.
Proof.
  unfold trim_suffix.
  replace (has_suffix p (t ++ p)) with true by (symmetry; apply has_suffix_spec; eauto).
  rewrite app_length. replace (length t + length p - length p)%nat with (length t) by lia.
  apply firstn_app_exact.
Qed.

Lemma trim_suffix_no s p : has_suffix p s = false -> trim_suffix s p = s.
Proof. unfold trim_suffix; now intros ->. Qed.

Lemma splitn_last c k s d : last (splitn c (S k) s) d = after_cuts c k s.
Proof.
  revert s; induction k as [|k IH]; intros s; [reflexivity|].
  change (splitn c (S (S k)) s) with
    (match cut c s with None => [s] | Some (a, b) => a :: splitn c (S k) b end).
  cbn [after_cuts]. destruct (cut c s) as [[a b]|] eqn:E; [|reflexivity].
  rewrite <- IH. destruct (splitn c (S k) b) eqn:F; [|reflexivity].
  exfalso. destruct k; cbn in F; [discriminate|]. destruct (cut c b) as [[? ?]|]; discriminate.
Qed.

Lemma drop_while_false p s : match s with [] => True | c :: _ => p c = false end -> drop_while p s = s.
Proof. destruct s; cbn; [reflexivity|]. now intros ->. Qed.

Lemma drop_while_app_true p a s : forallb p a = true -> drop_while p (a ++ s) = drop_while p s.
Proof.
  induction a as [|x a IH]; cbn; [reflexivity|].
  rewrite andb_true_iff; intros [-> H]; auto.
Qed.

Lemma take_until_app p a c s : forallb (fun b => negb (p b)) a = true -> p c = true ->
  take_until p (a ++ c :: s) = a.
Proof.
  induction a as [|x a IH]; cbn; intros H Hc; [now rewrite Hc|].
  rewrite andb_true_iff in H; destruct H as [Hx H]. apply negb_true_iff in Hx; rewrite Hx.
  now rewrite IH.
Qed.

Lemma take_until_all p a : forallb (fun b => negb (p b)) a = true -> take_until p a = a.
Proof.
  induction a as [|x a IH]; cbn; [reflexivity|].
  rewrite andb_true_iff; intros [Hx H]. apply negb_true_iff in Hx; rewrite Hx. now rewrite IH.
Qed.

(* a string that neither begins nor ends with white space is left alone by TrimSpace,
   and white space around it is removed *)
Definition no_edge_space (s : bytes) : Prop :=
  match s with [] => True | c :: _ => is_space c = false end /\
  match rev s with [] => True | c :: _ => is_space c = false end.

Lemma trim_space_pad a s b : forallb is_space a = true -> forallb is_space b = true -> no_edge_space s ->
  trim_space (a ++ s ++ b) = s.
Proof.
  intros Ha Hb [H1 H2]. unfold trim_space, trim_left, trim_right.
  rewrite drop_while_app_true by exact Ha.
  destruct s as [|c s].
  - cbn [app].
    assert (drop_while is_space b = []) as ->.
    { rewrite <- (app_nil_r b). rewrite drop_while_app_true by exact Hb. reflexivity. }
    reflexivity.
  - cbn [app]. cbn in H1. rewrite (drop_while_false is_space (c :: s ++ b)) by exact H1.
    change (c :: s ++ b) with ((c :: s) ++ b). rewrite rev_app_distr.
    rewrite drop_while_app_true by (rewrite forallb_forall in *; intros x Hx; apply Hb; now apply in_rev).
    rewrite drop_while_false by exact H2. apply rev_involutive.
Qed.

Lemma trim_space_id s : no_edge_space s -> trim_space s = s.
Proof. intros H. rewrite <- (trim_space_pad [] s [] eq_refl eq_refl H) at 2. now rewrite app_nil_r. Qed.

Lemma split_byte_no c s : ~ In c s -> split_byte c s = [s].
Proof.
  induction s as [|x s IH]; cbn; [reflexivity|]. intros H.
  destruct (Z.eqb_spec x c) as [->|Hne]; [exfalso; apply H; auto|].
  rewrite IH by (intros E; apply H; auto). reflexivity.
Qed.

Lemma split_byte_app c a b : ~ In c a -> split_byte c (a ++ c :: b) = a :: split_byte c b.
Proof.
  induction a as [|x a IH]; cbn; intros H.
  - now rewrite Z.eqb_refl.
  - destruct (Z.eqb_spec x c) as [->|Hne]; [exfalso; apply H; auto|].
    rewrite IH by (intros E; apply H; auto). reflexivity.
Qed.

Lemma contains_byte_in c s : contains_byte c s = true <-> In c s.
Proof.
  unfold contains_byte. rewrite existsb_exists. split.
  - intros [x [H E]]. apply Z.eqb_eq in E; now subst.
  - intros H; exists c; split; [exact H|apply Z.eqb_refl].
Qed.

Lemma to_lower_idem s : to_lower (to_lower s) = to_lower s.
Proof.
  unfold to_lower. rewrite map_map. apply map_ext. intros b. unfold lower_byte.
  destruct ((65 <=? b) && (b <=? 90)) eqn:E.
  - rewrite andb_true_iff, !Z.leb_le in E.
    destruct ((65 <=? b + 32) && (b + 32 <=? 90)) eqn:F; [|reflexivity].
    rewrite andb_true_iff, !Z.leb_le in F. lia.
  - now rewrite E.
Qed.
