(* Gokrb5.lib.JV — the universal value type exchanged with the correspondence harness.
   Every model entry point is a function jv -> jv; the harness projects the implementation's
   observables to the same type and the two are compared textually. *)
From Gokrb5.lib Require Import Bytes.

Inductive jv : Type :=
| JI (z : Z)
| JB (b : bytes)
| JL (l : list jv).

Definition jbool (b : bool) : jv := JI (if b then 1 else 0).
Definition jerr : jv := JL [JI (-1)].            (* an error was returned *)
Definition jpanic : jv := JL [JI (-2)].          (* the implementation would panic *)
Definition jbad : jv := JL [JI (-3)].            (* harness sent something the model cannot read *)
Definition jok (l : list jv) : jv := JL (JI 0 :: l).

Definition jres {A} (f : A -> list jv) (r : res A) : jv :=
  match r with Ok a => jok (f a) | Err _ => jerr | Panic _ => jpanic end.

Definition as_int (j : jv) : option Z := match j with JI z => Some z | _ => None end.
Definition as_bytes (j : jv) : option bytes := match j with JB b => Some b | _ => None end.
Definition as_list (j : jv) : option (list jv) := match j with JL l => Some l | _ => None end.

Fixpoint map_opt {A B} (f : A -> option B) (l : list A) : option (list B) :=
  match l with
  | [] => Some []
  | x :: r => match f x, map_opt f r with Some y, Some ys => Some (y :: ys) | _, _ => None end
  end.
