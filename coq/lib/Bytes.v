(* Gokrb5.lib.Bytes — bytes as lists of Z, fixed-width integer codecs, Go-style outcomes.
   One numeric type (Z) everywhere so that lia needs no conversions. *)
From Coq Require Export List ZArith Lia Bool.
Export ListNotations.
Open Scope Z_scope.

Definition byte := Z.
Definition bytes := list Z.

Definition is_byte (b : Z) : bool := (0 <=? b) && (b <? 256).
Definition wf_bytes (l : bytes) : Prop := Forall (fun b => 0 <= b < 256) l.
Definition wf_bytesb (l : bytes) : bool := forallb is_byte l.

Definition zlen {A} (l : list A) : Z := Z.of_nat (length l).

(* Go outcomes: a value, an error, or a run-time panic (index/slice out of range, nil deref). *)
Inductive res (A : Type) : Type :=
| Ok (a : A)
| Err (code : Z)
| Panic (site : Z).
Arguments Ok {A} a.
Arguments Err {A} code.
Arguments Panic {A} site.

Definition bind {A B} (r : res A) (f : A -> res B) : res B :=
  match r with Ok a => f a | Err c => Err c | Panic s => Panic s end.
Notation "'do' x <- r ; k" := (bind r (fun x => k)) (at level 200, x pattern, r at level 100, k at level 200).

Definition is_ok {A} (r : res A) : bool := match r with Ok _ => true | _ => false end.
Definition is_panic {A} (r : res A) : bool := match r with Panic _ => true | _ => false end.

(* sub-slice l[lo:hi] with Go's bounds rule (on a slice whose cap = len) *)
Definition slice {A} (l : list A) (lo hi : Z) : list A :=
  firstn (Z.to_nat (hi - lo)) (skipn (Z.to_nat lo) l).
Definition gslice {A} (site : Z) (l : list A) (lo hi : Z) : res (list A) :=
  if (0 <=? lo) && (lo <=? hi) && (hi <=? zlen l) then Ok (slice l lo hi) else Panic site.
Definition gindex {A} (site : Z) (l : list A) (i : Z) : res A :=
  if (0 <=? i) then match nth_error l (Z.to_nat i) with Some a => Ok a | None => Panic site end
  else Panic site.

(* wrap to w bits, and signed reading of a w-bit word *)
Definition wrap (w : Z) (z : Z) : Z := z mod 2 ^ w.
Definition sint (w : Z) (z : Z) : Z :=
  let m := z mod 2 ^ w in if m <? 2 ^ (w - 1) then m else m - 2 ^ w.

(* big-endian / little-endian values *)
Fixpoint be_val_acc (acc : Z) (l : bytes) : Z :=
  match l with [] => acc | b :: r => be_val_acc (acc * 256 + b) r end.
Definition be_val (l : bytes) : Z := be_val_acc 0 l.
Fixpoint le_val (l : bytes) : Z :=
  match l with [] => 0 | b :: r => b + 256 * le_val r end.

Fixpoint le_bytes (n : nat) (z : Z) : bytes :=
  match n with O => [] | S n' => (z mod 256) :: le_bytes n' (z / 256) end.
Definition be_bytes (n : nat) (z : Z) : bytes := rev (le_bytes n z).

Definition beq_bytes (a b : bytes) : bool :=
  (fix go (a b : bytes) : bool :=
     match a, b with
     | [], [] => true
     | x :: a', y :: b' => (x =? y) && go a' b'
     | _, _ => false
     end) a b.

Fixpoint repeatz (x : Z) (n : nat) : bytes := match n with O => [] | S n' => x :: repeatz x n' end.

(* ---------- lemmas ---------- *)

Lemma zlen_nonneg {A} (l : list A) : 0 <= zlen l.
Proof. unfold zlen; lia. Qed.

Lemma zlen_app {A} (a b : list A) : zlen (a ++ b) = zlen a + zlen b.
Proof. unfold zlen; rewrite app_length; lia. Qed.

Lemma zlen_cons {A} (x : A) (l : list A) : zlen (x :: l) = 1 + zlen l.
Proof. unfold zlen; cbn [length]; lia. Qed.

Lemma zlen_nil {A} : zlen (@nil A) = 0.
Proof. reflexivity. Qed.

Lemma beq_bytes_eq a b : beq_bytes a b = true <-> a = b.
Proof.
  revert b; induction a as [|x a IH]; intros [|y b]; cbn; try (split; congruence).
  rewrite andb_true_iff, Z.eqb_eq, IH. split; [intros [-> ->]; reflexivity | intros H; inversion H; auto].
Qed.

Lemma beq_bytes_refl a : beq_bytes a a = true.
Proof. apply beq_bytes_eq; reflexivity. Qed.

Lemma le_bytes_length n z : length (le_bytes n z) = n.
Proof. revert z; induction n as [|n IH]; intros z; cbn; [reflexivity| now rewrite IH]. Qed.

Lemma be_bytes_length n z : length (be_bytes n z) = n.
Proof. unfold be_bytes; now rewrite rev_length, le_bytes_length. Qed.

Lemma le_bytes_wf n z : wf_bytes (le_bytes n z).
Proof.
  revert z; induction n as [|n IH]; intros z; cbn; constructor; [|apply IH].
  apply Z.mod_pos_bound; lia.
Qed.

Lemma wf_bytes_app a b : wf_bytes (a ++ b) <-> wf_bytes a /\ wf_bytes b.
Proof. unfold wf_bytes; apply Forall_app. Qed.

Lemma wf_bytes_rev a : wf_bytes a -> wf_bytes (rev a).
Proof. unfold wf_bytes; apply Forall_rev. Qed.

Lemma be_bytes_wf n z : wf_bytes (be_bytes n z).
Proof. apply wf_bytes_rev, le_bytes_wf. Qed.

Lemma le_val_le_bytes n z : le_val (le_bytes n z) = z mod 256 ^ Z.of_nat n.
Proof.
  revert z; induction n as [|n IH]; intros z.
  - cbn. now rewrite Z.mod_1_r.
  - cbn [le_bytes le_val]. rewrite IH.
    replace (256 ^ Z.of_nat (S n)) with (256 * 256 ^ Z.of_nat n)
      by (rewrite Nat2Z.inj_succ, Z.pow_succ_r; lia).
    rewrite Z.rem_mul_r by lia. lia.
Qed.

Lemma be_val_acc_app acc a b : be_val_acc acc (a ++ b) = be_val_acc (be_val_acc acc a) b.
Proof. revert acc; induction a as [|x a IH]; intros acc; cbn; [reflexivity | apply IH]. Qed.

Lemma be_val_acc_rev l acc : be_val_acc acc (rev l) = le_val l + acc * 256 ^ zlen l.
Proof.
  revert acc; induction l as [|x l IH]; intros acc.
  - cbn. lia.
  - cbn [rev le_val]. rewrite be_val_acc_app, IH. cbn [be_val_acc].
    rewrite zlen_cons, Z.pow_add_r by (pose proof (zlen_nonneg l); lia). lia.
Qed.

Lemma be_val_rev l : be_val (rev l) = le_val l.
Proof. unfold be_val; rewrite be_val_acc_rev; lia. Qed.

Lemma be_val_be_bytes n z : be_val (be_bytes n z) = z mod 256 ^ Z.of_nat n.
Proof. unfold be_bytes; rewrite be_val_rev; apply le_val_le_bytes. Qed.

Lemma le_val_bound l : wf_bytes l -> 0 <= le_val l < 256 ^ zlen l.
Proof.
  induction 1 as [|x l Hx Hl IH]; cbn [le_val].
  - cbn; lia.
  - rewrite zlen_cons, Z.pow_add_r by (pose proof (zlen_nonneg l); lia). lia.
Qed.

Lemma be_val_bound l : wf_bytes l -> 0 <= be_val l < 256 ^ zlen l.
Proof.
  intros H. rewrite <- (rev_involutive l), be_val_rev.
  replace (zlen (rev (rev l))) with (zlen (rev l)) by (unfold zlen; now rewrite !rev_length).
  apply le_val_bound, wf_bytes_rev, H.
Qed.

Lemma firstn_app_exact {A} (a b : list A) : firstn (length a) (a ++ b) = a.
Proof. rewrite firstn_app, Nat.sub_diag, firstn_all; cbn; apply app_nil_r. Qed.

Lemma skipn_app_exact {A} (a b : list A) : skipn (length a) (a ++ b) = b.
Proof. rewrite skipn_app, Nat.sub_diag, skipn_all; reflexivity. Qed.

Lemma sint_small w z : 0 < w -> 0 <= z < 2 ^ (w - 1) -> sint w z = z.
Proof.
  intros Hw Hz. unfold sint.
  assert (2 ^ w = 2 * 2 ^ (w - 1)) as E by (rewrite <- Z.pow_succ_r by lia; f_equal; lia).
  rewrite Z.mod_small by lia.
  destruct (Z.ltb_spec z (2 ^ (w - 1))); lia.
Qed.

Lemma sint_range w z : 0 < w -> - 2 ^ (w - 1) <= sint w z < 2 ^ (w - 1).
Proof.
  intros Hw. unfold sint.
  assert (2 ^ w = 2 * 2 ^ (w - 1)) as E by (rewrite <- Z.pow_succ_r by lia; f_equal; lia).
  assert (0 < 2 ^ (w - 1)) by (apply Z.pow_pos_nonneg; lia).
  pose proof (Z.mod_pos_bound z (2 ^ w) ltac:(lia)).
  destruct (Z.ltb_spec (z mod 2 ^ w) (2 ^ (w - 1))); lia.
Qed.

Lemma sint_wrap w z : 0 < w -> (sint w z) mod 2 ^ w = z mod 2 ^ w.
Proof.
  intros Hw. unfold sint.
  assert (0 < 2 ^ w) by (apply Z.pow_pos_nonneg; lia).
  destruct (Z.ltb_spec (z mod 2 ^ w) (2 ^ (w - 1))).
  - apply Z.mod_mod; lia.
  - replace (z mod 2 ^ w - 2 ^ w) with (z mod 2 ^ w + (-1) * 2 ^ w) by lia.
    rewrite Z.mod_add by lia. apply Z.mod_mod; lia.
Qed.
