(* C13 — Kerberos and SPNEGO messages survive encode/decode and match the RFC ASN.1.
   The generated obligations of this property (the code's wire schemas refine the RFC modules, hence an RFC
   decoder reads every encoding the code produces) are in conform/ConfSchemas.v, re-checked against the
   working tree on every run. *)
From Gokrb5.lib Require Import Bytes JV.
From Gokrb5.model Require Import Schema DER DERCodec SchemaRefine LenOctets Flags Framing RFCSchemas Msg.
From Gokrb5.proofs Require Import DERBasic DERProofs DERCanon SchemaRefineProofs LenOctetsProofs FlagsProofs
  FramingProofs MsgProofs.
From Coq Require String.

(* ---- every schema: decoding an encoding yields the value (followed by anything, the rest is untouched) ---- *)
Theorem C13_decode_encode : forall t v b rest (fuel : nat),
  schema_ok t = true -> wf_val t v = true -> encode t v = Some b ->
  zlen b < 2 ^ 32 -> (length b <= fuel)%nat ->
  decode t fuel (b ++ rest) = Some (v, rest).
Proof. exact decode_encode. Qed.
Print Assumptions C13_decode_encode.

(* ---- re-encoding a decoded message reproduces the original bytes (the strict decoder accepts only DER; the
   "no optional field transmitted with a zero value" caveat of the Go side is the projection None <-> zero) ---- *)
Theorem C13_encode_decode_canonical : forall t b v,
  wf_bytes b -> decode_top t b = Some v -> encode t v = Some b.
Proof. exact encode_decode. Qed.
Print Assumptions C13_encode_decode_canonical.

Theorem C13_encode_injective : forall t v1 v2 b,
  schema_ok t = true -> encode t v1 = Some b -> encode t v2 = Some b -> zlen b < 2 ^ 32 -> v1 = v2.
Proof. exact encode_injective. Qed.
Print Assumptions C13_encode_injective.

(* ---- refinement: a schema that refines the RFC schema encodes every value exactly as the RFC schema does, so
   an independent decoder written from the RFC reads the same field values ---- *)
Theorem C13_refinement_same_encoding : forall c r v,
  schema_refines c r = true -> wf_val c v = true -> wf_val r v = true /\ enc r v = enc c v.
Proof. exact refines_same_encoding. Qed.
Print Assumptions C13_refinement_same_encoding.

Theorem C13_rfc_decoder_reads_code_encoding : forall c r v b,
  schema_refines c r = true -> schema_ok r = true -> encode c v = Some b -> zlen b < 2 ^ 32 ->
  decode_top r b = Some v.
Proof. exact rfc_decoder_reads_code_encoding. Qed.
Print Assumptions C13_rfc_decoder_reads_code_encoding.

Theorem C13_refinement_gives_interop : forall gen rfc,
  schemas_refine gen rfc = true ->
  forallb (fun e : String.string * ty => schema_ok (snd e)) rfc = true ->
  forall name g v b, In (name, g) gen -> encode g v = Some b -> zlen b < 2 ^ 32 ->
  exists r, lookup name rfc = Some r /\ decode_top r b = Some v.
Proof. exact refinement_gives_interop. Qed.
Print Assumptions C13_refinement_gives_interop.

(* ---- length octets (asn1tools): exact behaviour over the whole 64-bit int range ---- *)
Theorem C13_marshal_len_is_der : forall l, 0 <= l < 2 ^ 56 -> marshal_len l = Ok (der_len_spec l).
Proof. exact marshal_len_is_der. Qed.
Print Assumptions C13_marshal_len_is_der.

Theorem C13_der_len_spec_is_der : forall l, 0 <= l < 256 ^ 64 -> is_der_len l (der_len_spec l).
Proof. exact der_len_is_der. Qed.
Print Assumptions C13_der_len_spec_is_der.

Theorem C13_marshal_len_codec : forall l, 0 <= l < 2 ^ 56 -> marshal_len l = Ok (DER.der_len l).
Proof. exact marshal_len_codec. Qed.
Print Assumptions C13_marshal_len_codec.

Theorem C13_marshal_len_huge_panics : forall l, 2 ^ 56 <= l < 2 ^ 63 -> marshal_len l = Panic site_div0.
Proof. exact marshal_len_huge_panics. Qed.
Print Assumptions C13_marshal_len_huge_panics.

(* GetLengthFromASN takes a whole TLV with a one-octet identifier t *)
Theorem C13_len_octets_roundtrip : forall t l m r,
  0 <= l < 2 ^ 56 -> marshal_len l = Ok m -> get_length (t :: m ++ r) = Ok l.
Proof. exact len_octets_roundtrip. Qed.
Print Assumptions C13_len_octets_roundtrip.

Theorem C13_len_hdr_bytes : forall t l r,
  0 <= l < 2 ^ 63 -> len_hdr_bytes (t :: der_len_spec l ++ r) = Ok (zlen (der_len_spec l)).
Proof. exact len_hdr_bytes_der. Qed.
Print Assumptions C13_len_hdr_bytes.

Theorem C13_add_app_tag : forall b tag, 0 <= tag < 31 -> zlen b < 2 ^ 63 ->
  add_app_tag b tag = DER.tlv (DER.ident 1 true tag) b.
Proof. exact add_app_tag_codec. Qed.
Print Assumptions C13_add_app_tag.

(* ---- flag bit numbering (RFC 4120 5.2.8: flag i is bit 7 - i mod 8 of octet i / 8) ---- *)
Theorem C13_is_flag_set_reads_rfc_bit : forall f i,
  0 <= i -> is_flag_set f i = Ok (bit_or_false (rfc_bit (bs_bytes f) i)).
Proof. exact is_flag_set_spec. Qed.
Print Assumptions C13_is_flag_set_reads_rfc_bit.

Theorem C13_flag_bit_numbering : forall f i,
  wf_bytes (bs_bytes f) -> 0 <= i < 8 * zlen (bs_bytes (pad4 f)) ->
  exists f', set_flag f i = Ok f' /\
    length (bs_bytes f') = Nat.max 4 (length (bs_bytes f)) /\
    wf_bytes (bs_bytes f') /\
    bs_bitlen f' = (if (length (bs_bytes f) <? 4)%nat then 32 else bs_bitlen f) /\
    rfc_bit (bs_bytes f') i = Some true /\
    (forall j, 0 <= j -> j <> i -> rfc_bit (bs_bytes f') j = rfc_bit (bs_bytes (pad4 f)) j) /\
    is_flag_set f' i = Ok true /\
    (forall j, 0 <= j -> j <> i -> is_flag_set f' j = is_flag_set (pad4 f) j).
Proof. exact flag_bit_numbering. Qed.
Print Assumptions C13_flag_bit_numbering.

Theorem C13_unset_flag_bit : forall f i,
  wf_bytes (bs_bytes f) -> 0 <= i < 8 * zlen (bs_bytes (pad4 f)) ->
  exists f', unset_flag f i = Ok f' /\
    length (bs_bytes f') = Nat.max 4 (length (bs_bytes f)) /\
    wf_bytes (bs_bytes f') /\
    rfc_bit (bs_bytes f') i = Some false /\
    (forall j, 0 <= j -> j <> i -> rfc_bit (bs_bytes f') j = rfc_bit (bs_bytes (pad4 f)) j) /\
    is_flag_set f' i = Ok false.
Proof. exact unset_flag_bit. Qed.
Print Assumptions C13_unset_flag_bit.

Theorem C13_widening_preserves_flags : forall f j,
  0 <= j -> is_flag_set (kdc_options_widen f) j = is_flag_set f j /\
            (4 <= length (bs_bytes (kdc_options_widen f)))%nat.
Proof. exact kdc_options_widen_preserves_flags. Qed.
Print Assumptions C13_widening_preserves_flags.

(* the repaired IsFlagSet never panics; the pinned one does on a flag word shorter than the bit tested (C04) *)
Theorem C13_is_flag_set_total : forall f i, exists b, is_flag_set f i = Ok b.
Proof. exact is_flag_set_total. Qed.
Print Assumptions C13_is_flag_set_total.

Theorem C13_is_flag_set_orig_panics_short : forall f i,
  0 <= i -> 8 * zlen (bs_bytes f) <= i -> is_flag_set_orig f i = Panic site_flag_index.
Proof. exact is_flag_set_orig_panics_short. Qed.
Print Assumptions C13_is_flag_set_orig_panics_short.

(* ---- Ticket.Marshal: the decrypted part is not an input of the bytes (repaired); refuted for the pinned code ---- *)
Theorem C13_ticket_marshal_ignores_decrypted_part : forall w d,
  ticket_marshal (mkTicket w d) = ticket_marshal (mkTicket w None).
Proof. exact ticket_marshal_ignores_decrypted_part. Qed.
Print Assumptions C13_ticket_marshal_ignores_decrypted_part.

Theorem C13_ticket_marshal_orig_refuted :
  exists w d, ticket_marshal_orig (mkTicket w (Some d)) <> ticket_marshal_orig (mkTicket w None) /\
              ticket_marshal_orig (mkTicket w None) <> None.
Proof. exact ticket_marshal_orig_refuted. Qed.
Print Assumptions C13_ticket_marshal_orig_refuted.

Theorem C13_ticket_marshal_orig_appends_plaintext : forall w d,
  wf_fields wf_val ticket_fields w = true -> wf_val enc_ticket_part_seq d = true ->
  ticket_marshal_orig (mkTicket w (Some d)) =
    Some (app_tag_1 (tlv id_seq (enc_fields enc ticket_fields w ++ enc enc_ticket_part_seq d))) /\
  ticket_marshal (mkTicket w (Some d)) = Some (app_tag_1 (tlv id_seq (enc_fields enc ticket_fields w))).
Proof. exact ticket_marshal_orig_appends_plaintext. Qed.
Print Assumptions C13_ticket_marshal_orig_appends_plaintext.

(* ---- additional tickets: the hand-written SEQUENCE OF framing round-trips for every number of tickets ---- *)
Theorem C13_ticket_seq_roundtrip : forall ts b,
  ts <> [] -> forallb wf_ticket ts = true ->
  encode (TSeqOf rfc_Ticket) (VList (map ticket_value ts)) = Some b -> zlen b < 2 ^ 32 ->
  ticket_seq_marshal ts = Ok b /\ decode_top (TSeqOf rfc_Ticket) b = Some (VList (map ticket_value ts)).
Proof. exact ticket_seq_roundtrip. Qed.
Print Assumptions C13_ticket_seq_roundtrip.

(* ---- SPNEGO / GSS-API framing ---- *)
Theorem C13_choice_decode_encode : forall alts n t v b,
  alt_lookup alts (ident 2 true n) = Some (n, t) -> schema_ok t = true ->
  choice_encode n t v = Some b -> zlen b < 2 ^ 32 ->
  choice_decode alts b = Some (n, v).
Proof. exact choice_decode_encode. Qed.
Print Assumptions C13_choice_decode_encode.

Theorem C13_gss_unframe_frame : forall mech inner b,
  gss_frame mech inner = Some b -> zlen b < 2 ^ 32 -> gss_unframe b = Some (mech, inner).
Proof. exact gss_unframe_frame. Qed.
Print Assumptions C13_gss_unframe_frame.
