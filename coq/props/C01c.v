(* C01 (completeness) — an honestly built AP-REQ is accepted, from the wire bytes through the real crypto model; the
   same request presented again is refused as a replay. *)
From Gokrb5.lib Require Import Bytes JV.
From Gokrb5.model Require Import Keytab Crypto Replay Schema DER DERCodec RFCSchemas GoASN1 APReq APReqBytes.
From Gokrb5.proofs Require Import APReqProofs APReqBytesProofs CryptoRoundTrip APReqHonest.

(* sealed et key usage msg ct := exists conf, length conf = conf_len et /\ wf_bytes conf /\
                                              encrypt_with et key usage conf msg = Ok ct
   key_ok et key := a byte string for the AES profiles, 16 octets for rc4-hmac, nothing for des3 (nor unknown etypes,
                    which seal nothing). *)

(* What is sealed opens: the plaintext, followed (des3 only) by the RFC 3961 zero padding. *)
Theorem C01_sealed_decrypt : forall et key usage msg ct,
  key_ok et key -> wf_bytes msg -> sealed et key usage msg ct ->
  exists pad, decrypt et key usage ct = Ok (msg ++ pad).
Proof. exact sealed_decrypt. Qed.
Print Assumptions C01_sealed_decrypt.

(* The wire is the RFC 4120 DER encoding of an AP-REQ whose ticket the KDC sealed (usage 2) under the key the keytab
   returns for it and whose authenticator the client sealed under the ticket's session key; the RFC 4120 3.2.3
   conditions on times, flags, addresses, names and replay hold: the service accepts, reports the identity sealed in
   the ticket and records the authenticator. *)
Theorem C01_honest_apreq_accepted : forall st kt t rc tk aet ac wire rest et au ept apt0 kv ktype kvno,
  wf_apreq tk aet ac = true -> encode rfc_APReq (inject_apreq tk aet ac) = Some wire -> zlen wire < 2 ^ 31 ->
  wf_enc_ticket et = true -> encode rfc_EncTicketPart (inject_enc_ticket et) = Some ept -> zlen ept < 2 ^ 31 ->
  wf_authenticator au = true -> encode rfc_Authenticator (inject_authenticator au) = Some apt0 -> zlen apt0 < 2 ^ 31 ->
  get_key kt (match st_override st with Some o => o | None => tk_sname tk end)
          (tk_realm tk) (tk_kvno tk) (tk_etype tk) = Ok (kv, ktype, kvno) ->
  key_ok ktype kv -> sealed ktype kv 2 ept (tk_cipher tk) ->
  key_ok (et_keytype et) (et_key et) -> sealed (et_keytype et) (et_key et) (auth_usage (tk_sname tk)) apt0 ac ->
  match et_start et with Some s => us s - t <= st_skew st | None => True end ->
  flag_invalid (et_flags et) = false -> t - us (et_end et) <= st_skew st ->
  (et_caddr et = [] \/ In (st_caddr st) (et_caddr et)) ->
  (st_require_addr st = true -> et_caddr et <> []) ->
  au_cname au = et_cname et -> au_crealm au = et_crealm et ->
  Z.abs (t - (us (au_ctime au) + au_cusec au)) <= st_skew st ->
  ~ In (mkAuth (join_slash (au_cname au)) (us (au_ctime au) + au_cusec au) (eff_sname st tk)) rc ->
  verify_apreq_bytes st kt t rc (wire ++ rest) =
  (Accept (mkIdentity (join_slash (et_cname et)) (et_crealm et) (et_cname et) (et_end et)),
   mkAuth (join_slash (au_cname au)) (us (au_ctime au) + au_cusec au) (eff_sname st tk) :: rc).
Proof. exact honest_apreq_accepted. Qed.
Print Assumptions C01_honest_apreq_accepted.

(* Presented again at any time t' that still satisfies the time conditions, against the cache the first presentation
   left: KRB_AP_ERR_REPEAT (34), cache kept. *)
Theorem C01_honest_replay_rejected : forall st kt t t' rc tk aet ac wire rest et au ept apt0 kv ktype kvno,
  wf_apreq tk aet ac = true -> encode rfc_APReq (inject_apreq tk aet ac) = Some wire -> zlen wire < 2 ^ 31 ->
  wf_enc_ticket et = true -> encode rfc_EncTicketPart (inject_enc_ticket et) = Some ept -> zlen ept < 2 ^ 31 ->
  wf_authenticator au = true -> encode rfc_Authenticator (inject_authenticator au) = Some apt0 -> zlen apt0 < 2 ^ 31 ->
  get_key kt (match st_override st with Some o => o | None => tk_sname tk end)
          (tk_realm tk) (tk_kvno tk) (tk_etype tk) = Ok (kv, ktype, kvno) ->
  key_ok ktype kv -> sealed ktype kv 2 ept (tk_cipher tk) ->
  key_ok (et_keytype et) (et_key et) -> sealed (et_keytype et) (et_key et) (auth_usage (tk_sname tk)) apt0 ac ->
  match et_start et with Some s => us s - t <= st_skew st | None => True end ->
  flag_invalid (et_flags et) = false -> t - us (et_end et) <= st_skew st ->
  (et_caddr et = [] \/ In (st_caddr st) (et_caddr et)) ->
  (st_require_addr st = true -> et_caddr et <> []) ->
  au_cname au = et_cname et -> au_crealm au = et_crealm et ->
  Z.abs (t - (us (au_ctime au) + au_cusec au)) <= st_skew st ->
  ~ In (mkAuth (join_slash (au_cname au)) (us (au_ctime au) + au_cusec au) (eff_sname st tk)) rc ->
  match et_start et with Some s => us s - t' <= st_skew st | None => True end ->
  t' - us (et_end et) <= st_skew st ->
  Z.abs (t' - (us (au_ctime au) + au_cusec au)) <= st_skew st ->
  let a := mkAuth (join_slash (au_cname au)) (us (au_ctime au) + au_cusec au) (eff_sname st tk) in
  let first := verify_apreq_bytes st kt t rc (wire ++ rest) in
  snd first = a :: rc /\
  verify_apreq_bytes st kt t' (snd first) (wire ++ rest) = (Reject 34, a :: rc).
Proof. exact honest_apreq_then_replay_rejected. Qed.
Print Assumptions C01_honest_replay_rejected.
