(* C02 — An authenticator is accepted at most once while it remains acceptable. *)
From Gokrb5.lib Require Import Bytes JV.
From Gokrb5.model Require Import Replay.
From Gokrb5.proofs Require Import ReplayProofs.

(* Once accepted, every later presentation of the same (client, client time, service) is a replay for as
   long as the timestamp passes the skew check — whatever other authenticators are presented, whenever
   clean-up runs, however far the (non-decreasing) clock advances in between. *)
Theorem C02_replay_at_most_once : forall d s1 a s2 ops s3 vs s4 v,
  step d s1 (Present a) = (s2, VAccept) ->
  nonneg_advances ops -> run d s2 ops = (s3, vs) ->
  step d s3 (Present a) = (s4, v) ->
  v = VReplay \/ (v = VSkew /\ d < Z.abs (now s3 - a_ct a)).
Proof. exact replay_at_most_once. Qed.
Print Assumptions C02_replay_at_most_once.

(* A replay verdict is never a false positive: the same authenticator was accepted earlier in the history. *)
Theorem C02_replay_no_false_positive : forall d ops s vs a s',
  run d init ops = (s, vs) -> step d s (Present a) = (s', VReplay) -> In a (accepted d init ops).
Proof. exact replay_no_false_positive. Qed.
Print Assumptions C02_replay_no_false_positive.

(* Authenticators differing in client name, client time or service do not affect each other. *)
Theorem C02_distinct_keys_independent : forall d s a b,
  a <> b -> In a (cache s) <-> In a (cache (fst (step d s (Present b)))).
Proof. exact distinct_keys_independent. Qed.
Print Assumptions C02_distinct_keys_independent.

(* Any number of presentations of one authenticator, in any order (each is atomic under the write lock):
   at most one is accepted. *)
Theorem C02_concurrent_same_authenticator_once : forall d a n s,
  (count_accept (snd (run d s (repeat (Present a) n))) <= 1)%nat.
Proof. exact concurrent_same_authenticator_once. Qed.
Print Assumptions C02_concurrent_same_authenticator_once.
