(* C04 — No input makes a decoder or verifier panic, hang or allocate without bound.
   The totality theorems of the models of every entry point that slices or indexes external bytes itself,
   collected here; the ASN.1 (gofork) and NDR (rpc/v2) decoders are external and are covered by the mutation
   stream only.  Each model carries Go's panics explicitly (Panic / Crash constructors): "never Panic" on the
   model is a statement about the bounds checks the code performs, and the correspondence stream checks on
   every mutated input that the implementation agrees (error where the model says error, never a panic). *)
From Gokrb5.lib Require Import Bytes JV.
From Gokrb5.model Require Import Keytab CCache Crypto Krb5Conf APReq Flags GSSToken Spnego.
From Gokrb5.proofs Require Import KeytabTotal KeytabParse CCacheTotal CryptoBasic Krb5ConfParse APReqProofs FlagsProofs.

(* keytab: no panic, and the entry loop terminates (fuel never exhausted) on every byte string *)
Theorem C04_keytab_total : forall b, fine (kt_unmarshal b).
Proof. exact kt_unmarshal_total. Qed.
Print Assumptions C04_keytab_total.

(* credential cache: no panic, termination, and allocation bounded by the input: a counted list of n entries
   has consumed at least 4 + 6n input bytes *)
Theorem C04_ccache_total : forall b, cc_fine (cc_unmarshal b).
Proof. exact cc_unmarshal_total. Qed.
Print Assumptions C04_ccache_total.

Theorem C04_ccache_alloc_bounded : forall le r l r',
  rd_counted le r = Ok (l, r') -> (length r' + 4 + 6 * length l <= length r)%nat.
Proof. exact rd_counted_bounded. Qed.
Print Assumptions C04_ccache_alloc_bounded.

(* krb5.conf: NewFromScanner never indexes or slices out of range, for every text *)
Theorem C04_krb5conf_total : forall client_keytab k5login_dir text,
  is_panic (parse_config client_keytab k5login_dir text) = false.
Proof. exact parse_total. Qed.
Print Assumptions C04_krb5conf_total.

(* message decryption, all six etypes: short inputs are errors, no input panics *)
Theorem C04_decrypt_never_panics : forall et key usage ct, is_panic (decrypt et key usage ct) = false.
Proof. exact decrypt_never_panics. Qed.
Print Assumptions C04_decrypt_never_panics.

Theorem C04_decrypt_short_is_error : forall et key usage ct,
  (length ct < conf_len et + mac_len et)%nat -> exists e, decrypt et key usage ct = Err e.
Proof. exact decrypt_short_is_error. Qed.
Print Assumptions C04_decrypt_short_is_error.

(* AP-REQ acceptance (incl. empty service names, empty flag words, empty address lists) never crashes *)
Theorem C04_apreq_total : forall dec_ticket dec_auth st kt t rc tk aet ac,
  fst (verify_apreq dec_ticket dec_auth st kt t rc tk aet ac) <> Crash.
Proof. exact apreq_total. Qed.
Print Assumptions C04_apreq_total.

(* flag words shorter than the bit tested *)
Theorem C04_is_flag_set_total : forall f i, exists b, is_flag_set f i = Ok b.
Proof. exact is_flag_set_total. Qed.
Print Assumptions C04_is_flag_set_total.
