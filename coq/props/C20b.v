(* C20, second layer — the checker behind the generated obligation is exact, and accepted encodings emit
   public tokens only. *)
From Gokrb5.lib Require Import Bytes JV.
From Gokrb5.model Require Import Diag.
From Gokrb5.proofs Require Import DiagProofs DiagTight.

(* The checker rejects a type description only when a leak exists: two states that differ in nothing but a
   secret and encode differently.  So a failed obligation in conform/ConfDiag.v always comes with a witness,
   and `no_secret_visible` demands exactly what the property states - neither more nor less. *)
Theorem C20_checker_exact : forall t,
  no_secret_visible t = true <-> (forall a b, same_public t a b -> render t a = render t b).
Proof. exact checker_exact. Qed.
Print Assumptions C20_checker_exact.

Theorem C20_checker_tight : forall t,
  no_secret_visible t = false -> exists a b, same_public t a b /\ render t a <> render t b.
Proof. exact checker_tight. Qed.
Print Assumptions C20_checker_tight.

(* Direct reading of "never appear": whatever an accepted encoding emits is a public token of the state, so
   a secret that is not itself also stored in a public field does not occur in the output, for every state
   (including ill-formed ones: no typing hypothesis on v). *)
Theorem C20_render_only_public : forall t v x,
  no_secret_visible t = true -> In x (render t v) -> In x (pub_tokens v).
Proof. exact render_only_public. Qed.
Print Assumptions C20_render_only_public.

Theorem C20_fresh_secret_never_rendered : forall t v s,
  no_secret_visible t = true -> ~ In s (pub_tokens v) -> ~ In s (render t v).
Proof. exact fresh_secret_never_rendered. Qed.
Print Assumptions C20_fresh_secret_never_rendered.

(* the hypotheses are met by a non-trivial state: a key holder with a hidden key and a visible key type *)
Example C20b_nonvacuous :
  let t := JStruct [(true, JPublic); (false, JSecret); (true, JSeq (JStruct [(true, JPublic); (false, JSecret)]))] in
  let v := VStruct [VP 18; VS 777; VSeq [VStruct [VP 1; VS 888]; VStruct [VP 2; VS 999]]] in
  no_secret_visible t = true /\ render t v = [18; 1; 2] /\ ~ In 777 (pub_tokens v).
Proof. cbn. repeat split. intros [H|[H|[H|[]]]]; discriminate. Qed.
