(* C08 — Passwords, salts and parameters derive exactly the RFC-defined keys (first layer).
   string_to_key / derive_key / nfold / des3_random_to_key in model/Crypto.v are the RFC functions
   (independent implementation); equality with gokrb5 is the correspondence stream.  *)
From Gokrb5.lib Require Import Bytes JV.
From Gokrb5.model Require Import Crypto PAData.
From Gokrb5.proofs Require Import CryptoKeys.

(* random-to-key for DES3: 24 bytes, every byte has odd parity (apart from the weak-key correction) *)
Theorem C08_des3_key_length : forall b, (21 <= length b)%nat -> length (des3_random_to_key b) = 24%nat.
Proof. exact des3_random_to_key_length_21. Qed.
Print Assumptions C08_des3_key_length.

Theorem C08_parity_fix_odd : forall b, 0 <= b < 256 -> odd_parity (parity_fix b) = true.
Proof. exact parity_fix_odd. Qed.
Print Assumptions C08_parity_fix_odd.

(* RC4 string-to-key is MD4 of the UTF-16LE encoding: every code point, including supplementary planes,
   becomes one or two 16-bit units *)
Theorem C08_utf16le_length : forall runes,
  Forall (fun r => 0 <= r < 1114112) runes ->
  length (utf16le runes) = (2 * length (filter (fun r => (r <? 65536)%Z) runes)
                            + 4 * length (filter (fun r => negb (r <? 65536)%Z) runes))%nat.
Proof. exact utf16le_length. Qed.
Print Assumptions C08_utf16le_length.

(* PA-data hints: entries that carry no hint do not change the outcome; a more specific hint seen
   earlier is never overridden by a less specific one *)
Theorem C08_padata_skip_lower : forall req s h s',
  pa_step req s h = Ok s' -> hint_type h < ps_id s -> (hint_type h = 3 \/ hint_type h = 11 \/ hint_type h = 19) -> s' = s.
Proof. exact pa_step_skip_lower. Qed.
Print Assumptions C08_padata_skip_lower.

(* the derived key does not depend on the order of the hints (at most one of each type, naming supported etypes -
   which may differ from each other and from the etype requested) *)
Theorem C08_padata_order_irrelevant : forall pw names realm req hs hs',
  hints_simple hs -> Permutation.Permutation hs hs' ->
  key_from_password pw names realm req hs = key_from_password pw names realm req hs'.
Proof. exact padata_order_irrelevant. Qed.
Print Assumptions C08_padata_order_irrelevant.

(* RFC 4120 5.2.7.5: an ETYPE-INFO2 hint, wherever it stands, alone decides etype, salt and parameters (its own, or
   the defaults of the etype it names) *)
Theorem C08_padata_info2_decides : forall req s0 hs e sl p0 es,
  hints_simple hs -> ps_id s0 <= 19 -> ps_params s0 = default_s2kparams (ps_et s0) ->
  In (HInfo2 ((e, sl, p0) :: es)) hs ->
  pa_fold req s0 hs = Ok (mkPS e sl (info2_params p0 (default_s2kparams e)) 19).
Proof. exact padata_info2_decides. Qed.
Print Assumptions C08_padata_info2_decides.

(* ... without one, an ETYPE-INFO hint decides etype and salt, whatever PW-SALT says and wherever it stands *)
Theorem C08_padata_info_decides : forall req s0 hs e sl es,
  hints_simple hs -> ps_id s0 <= 11 -> ps_params s0 = default_s2kparams (ps_et s0) ->
  In (HInfo ((e, sl) :: es)) hs -> (forall es2, ~ In (HInfo2 es2) hs) ->
  pa_fold req s0 hs = Ok (mkPS e sl (default_s2kparams e) 11).
Proof. exact padata_info_decides. Qed.
Print Assumptions C08_padata_info_decides.

(* The code as pinned (before repair eb1c1ad) compared a hint's etype with the REQUESTED etype: ETYPE-INFO naming 23
   followed by ETYPE-INFO2 naming the requested 17 left 23 selected; the other order selected 17.  Witness: *)
Theorem C08_padata_pinned_order_matters_refuted :
  let hs := [HInfo [(23, [2])]; HInfo2 [(17, [3], Some [0;0;0;5])]] in
  hints_simple hs /\ Permutation.Permutation hs (rev hs) /\
  pa_fold_pinned 17 (mkPS 17 [] (default_s2kparams 17) 0) hs <> pa_fold_pinned 17 (mkPS 17 [] (default_s2kparams 17) 0) (rev hs) /\
  pa_fold 17 (mkPS 17 [] (default_s2kparams 17) 0) hs = pa_fold 17 (mkPS 17 [] (default_s2kparams 17) 0) (rev hs).
Proof. exact padata_pinned_order_matters_refuted. Qed.
Print Assumptions C08_padata_pinned_order_matters_refuted.

(* generated keys: the length gokrb5 generates is the length encryption demands *)
Theorem C08_generated_key_usable : forall et key usage conf msg,
  In et [16; 17; 18; 19; 20; 23] -> length key = key_len et ->
  exists c, encrypt_with et key usage conf msg = Ok c.
Proof. exact generated_key_usable. Qed.
Print Assumptions C08_generated_key_usable.
