(* C17 — GSS-API MIC and Wrap tokens follow RFC 4121 and bind header and payload. *)
From Gokrb5.lib Require Import Bytes JV.
From Gokrb5.model Require Import GSSToken.
From Gokrb5.proofs Require Import GSSTokenProofs.

(* Tokens the library builds have the RFC 4121 4.2.6 layout. *)
Theorem C17_wrap_layout : forall t, wf_wrap t -> wrap_marshal t = wrap_layout t.
Proof. exact wrap_marshal_layout. Qed.
Print Assumptions C17_wrap_layout.

Theorem C17_mic_layout : forall t, wf_mic t -> mic_marshal t = mic_layout t.
Proof. exact mic_marshal_layout. Qed.
Print Assumptions C17_mic_layout.

(* Encoding a token and decoding it again returns the same fields. *)
Theorem C17_wrap_unmarshal_marshal : forall t,
  wf_wrap t -> wrap_unmarshal (wrap_marshal t) (wrap_from_acceptor t) = Ok t.
Proof. exact wrap_unmarshal_marshal. Qed.
Print Assumptions C17_wrap_unmarshal_marshal.

Theorem C17_mic_unmarshal_marshal : forall t,
  wf_mic t ->
  mic_unmarshal (mic_marshal t) (negb (Z.land (mt_flags t) 1 =? 0)) = Ok (mt_flags t, mt_seq t, mt_cksum t).
Proof. exact mic_unmarshal_marshal. Qed.
Print Assumptions C17_mic_unmarshal_marshal.

Theorem C17_wrap_marshal_injective : forall t1 t2,
  wf_wrap t1 -> wf_wrap t2 -> wrap_marshal t1 = wrap_marshal t2 -> t1 = t2.
Proof. exact wrap_marshal_injective. Qed.
Print Assumptions C17_wrap_marshal_injective.

(* The checksum covers { payload | header with EC and RRC zeroed }, and that data determines payload,
   flags and sequence number: every transmitted bit except EC/RRC is bound by the checksum. *)
Theorem C17_wrap_signed_data : forall t, 0 <= wt_flags t < 256 -> wrap_cksum_input t = wrap_signed_data t.
Proof. exact wrap_cksum_input_spec. Qed.
Print Assumptions C17_wrap_signed_data.

Theorem C17_mic_signed_data : forall t, 0 <= mt_flags t < 256 -> mic_cksum_input t = mic_signed_data t.
Proof. exact mic_cksum_input_spec. Qed.
Print Assumptions C17_mic_signed_data.

Theorem C17_wrap_covered_fields : forall t1 t2,
  0 <= wt_seq t1 < 2 ^ 64 -> 0 <= wt_seq t2 < 2 ^ 64 ->
  wrap_signed_data t1 = wrap_signed_data t2 ->
  wt_payload t1 = wt_payload t2 /\ wt_flags t1 = wt_flags t2 /\ wt_seq t1 = wt_seq t2.
Proof. exact wrap_signed_data_injective. Qed.
Print Assumptions C17_wrap_covered_fields.

Theorem C17_mic_covered_fields : forall t1 t2,
  0 <= mt_seq t1 < 2 ^ 64 -> 0 <= mt_seq t2 < 2 ^ 64 ->
  mic_signed_data t1 = mic_signed_data t2 ->
  mt_payload t1 = mt_payload t2 /\ mt_flags t1 = mt_flags t2 /\ mt_seq t1 = mt_seq t2.
Proof. exact mic_signed_data_injective. Qed.
Print Assumptions C17_mic_covered_fields.

(* Verification succeeds exactly when the carried checksum is the keyed checksum of the signed data
   under the key and usage presented — for every keyed checksum function (C07 characterises it). *)
Theorem C17_wrap_verify_iff : forall checksum t et key usage,
  wrap_verify checksum t et key usage = Some true <->
  checksum et key usage (wrap_cksum_input t) = Some (wt_cksum t).
Proof. exact wrap_verify_iff. Qed.
Print Assumptions C17_wrap_verify_iff.

Theorem C17_mic_verify_iff : forall checksum t et key usage,
  mic_verify checksum t et key usage = Some true <->
  checksum et key usage (mic_cksum_input t) = Some (mt_cksum t).
Proof. exact mic_verify_iff. Qed.
Print Assumptions C17_mic_verify_iff.

(* Decoding rejects a wrong identifier, filler, sender direction, short input, inconsistent EC. *)
Theorem C17_wrap_unmarshal_rejects : forall b acc,
  (length b < 16)%nat \/ slice b 0 2 <> [5; 4] \/ nth 3 b 0 <> 255 \/
  (Z.land (nth 2 b 0) 1 =? 1) <> acc \/ zlen b - 16 < be_val (slice b 4 6) ->
  exists c, wrap_unmarshal b acc = Err c.
Proof. exact wrap_unmarshal_rejects. Qed.
Print Assumptions C17_wrap_unmarshal_rejects.

Theorem C17_mic_unmarshal_rejects : forall b acc,
  (length b < 16)%nat \/ slice b 0 2 <> [4; 4] \/ slice b 3 8 <> [255;255;255;255;255] \/
  negb (Z.land (nth 2 b 0) 1 =? 0) <> acc ->
  exists c, mic_unmarshal b acc = Err c.
Proof. exact mic_unmarshal_rejects. Qed.
Print Assumptions C17_mic_unmarshal_rejects.
