(* C03 in bytes mode — the SPNEGO HTTP wrapper serves the inner handler only to authenticated requests, stated from
   the OCTETS of the Authorization header value (model/SpnegoBytes.v; proofs/SpnegoBytesProofs.v). *)
From Gokrb5.lib Require Import Bytes JV.
From Gokrb5.model Require Import Keytab Crypto Replay Schema DER DERCodec RFCSchemas GoASN1 Framing APReq APReqBytes
     Spnego SpnegoBytes.
From Gokrb5.proofs Require Import APReqProofs APReqBytesProofs SpnegoProofs SpnegoBytesProofs.
Local Open Scope Z_scope.

(* For EVERY header value: the wrapped handler runs, with identity id in the request context, only under an established
   authenticated session of id or when the value is "Negotiate" SP base64(tok) and tok carries (as the mech token of an
   SPNEGO token, or as a raw KRB5 token) a KRB5 token with tok-id 01 00 whose AP-REQ octets verify_apreq_bytes accepts
   with that identity. *)
Theorem C03_handler_only_if_valid_apreq : forall s st kt t rc hv id,
  r_inner (serve_bytes st kt t rc s hv) = Some id ->
  s = Session id true \/
  exists value tok wire,
    split_space hv = Some (negotiate, value) /\ b64_decode value = Some tok /\
    carried_wire tok = Some wire /\ fst (verify_apreq_bytes st kt t rc wire) = Accept id.
Proof. exact handler_only_if_valid_apreq. Qed.
Print Assumptions C03_handler_only_if_valid_apreq.

(* ... and then the RFC 4120 3.2.3 conjunction of C01 holds of that AP-REQ *)
Theorem C03_handler_only_if_rfc_valid : forall s st kt t rc hv id,
  r_inner (serve_bytes st kt t rc s hv) = Some id ->
  s = Session id true \/
  exists value tok wire tk aet ac rc',
    split_space hv = Some (negotiate, value) /\ b64_decode value = Some tok /\ carried_wire tok = Some wire /\
    parse_apreq wire = Some (tk, aet, ac) /\ rfc_valid dec_ticket_der dec_auth_der st kt t rc tk ac id rc'.
Proof. exact handler_only_if_rfc_valid. Qed.
Print Assumptions C03_handler_only_if_rfc_valid.

(* what "carries" means *)
Theorem C03_carried_wire_spec : forall tok wire, carried_wire tok = Some wire ->
  exists mb, krb5_unmarshal mb = Some (KAPReq wire) /\
             ((exists ms, spnego_unmarshal tok = Some (RInit ms (Some mb))) \/
              (exists m, spnego_unmarshal tok = Some (RResp m (Some mb))) \/
              (spnego_unmarshal tok = None /\ mb = tok)).
Proof. exact carried_wire_spec. Qed.
Print Assumptions C03_carried_wire_spec.

Theorem C03_krb5_unmarshal_apreq_inv : forall mb wire, krb5_unmarshal mb = Some (KAPReq wire) ->
  gss_oid mb = Some (rfc_oid_krb5, 1 :: 0 :: wire) /\ parse_apreq wire <> None.
Proof. exact krb5_unmarshal_apreq_inv. Qed.
Print Assumptions C03_krb5_unmarshal_apreq_inv.

(* REFINEMENT: on "Negotiate " ++ base64 of a well-formed token carrying the DER of a well-formed AP-REQ, the bytes-mode
   response is the structure-mode response of model/Spnego.v, the AP-REQ verdict being that of C01's sealed-content model *)
Theorem C03_serve_bytes_refines_init : forall s st kt t rc tk aet ac wire et au mt mechs flags mic inner tok rest,
  sealed_apreq st kt tk aet ac wire et au ->
  gss_frame rfc_oid_krb5 (krb5_inner rfc_tok_id_ap_req wire) = Some mt ->
  choice_encode 0 rfc_NegTokenInit (init_value mechs flags mt mic) = Some inner ->
  gss_frame rfc_oid_spnego inner = Some tok ->
  forallb oid_small mechs = true -> flags_ok flags = true -> zlen tok < 2 ^ 31 -> wf_bytes (tok ++ rest) ->
  serve_bytes st kt t rc s (negotiate ++ 32 :: b64_encode (tok ++ rest)) =
  serve s (HToken (NInit (map classify_oid mechs) (Some (MTAPReq (sealed_verdict st kt t rc tk aet ac et au))))).
Proof. exact serve_bytes_refines_init. Qed.
Print Assumptions C03_serve_bytes_refines_init.

Theorem C03_serve_bytes_refines_resp : forall s st kt t rc tk aet ac wire et au mt state mech mic tok rest,
  sealed_apreq st kt tk aet ac wire et au ->
  gss_frame rfc_oid_krb5 (krb5_inner rfc_tok_id_ap_req wire) = Some mt ->
  choice_encode 1 rfc_NegTokenResp (resp_value state mech mt mic) = Some tok ->
  int32_ok state = true -> (match mech with Some m => oid_small m = true | None => True end) ->
  zlen tok < 2 ^ 31 -> wf_bytes (tok ++ rest) ->
  serve_bytes st kt t rc s (negotiate ++ 32 :: b64_encode (tok ++ rest)) =
  serve s (HToken (NResp (match mech with Some o => classify_oid o | None => OOther end)
                         (Some (MTAPReq (sealed_verdict st kt t rc tk aet ac et au))))).
Proof. exact serve_bytes_refines_resp. Qed.
Print Assumptions C03_serve_bytes_refines_resp.

Theorem C03_serve_bytes_refines_raw : forall s st kt t rc tk aet ac wire et au mt rest,
  sealed_apreq st kt tk aet ac wire et au ->
  gss_frame rfc_oid_krb5 (krb5_inner rfc_tok_id_ap_req wire) = Some mt ->
  zlen mt < 2 ^ 31 -> wf_bytes (mt ++ rest) ->
  serve_bytes st kt t rc s (negotiate ++ 32 :: b64_encode (mt ++ rest)) =
  serve s (HToken (NInit [OKrb5] (Some (MTAPReq (sealed_verdict st kt t rc tk aet ac et au))))).
Proof. exact serve_bytes_refines_raw. Qed.
Print Assumptions C03_serve_bytes_refines_raw.

Theorem C03_accept_bytes_refines_init : forall st kt t rc tk aet ac wire et au mt mechs flags mic inner tok rest,
  sealed_apreq st kt tk aet ac wire et au ->
  gss_frame rfc_oid_krb5 (krb5_inner rfc_tok_id_ap_req wire) = Some mt ->
  choice_encode 0 rfc_NegTokenInit (init_value mechs flags mt mic) = Some inner ->
  gss_frame rfc_oid_spnego inner = Some tok ->
  forallb oid_small mechs = true -> flags_ok flags = true -> zlen tok < 2 ^ 31 ->
  accept_bytes st kt t rc (tok ++ rest) =
  Some (accept_sec_context (NInit (map classify_oid mechs) (Some (MTAPReq (sealed_verdict st kt t rc tk aet ac et au))))).
Proof. exact accept_bytes_refines_init. Qed.
Print Assumptions C03_accept_bytes_refines_init.

(* the framing decoders alone, on what gokrb5 marshals (model/Framing.v encoders, RFC 4178 schemas) *)
Theorem C03_spnego_unmarshal_init : forall mechs flags mt mic inner tok rest,
  choice_encode 0 rfc_NegTokenInit (init_value mechs flags mt mic) = Some inner ->
  gss_frame rfc_oid_spnego inner = Some tok ->
  forallb oid_small mechs = true -> flags_ok flags = true -> zlen tok < 2 ^ 31 ->
  spnego_unmarshal (tok ++ rest) = Some (RInit mechs (Some mt)).
Proof. exact spnego_unmarshal_init. Qed.
Print Assumptions C03_spnego_unmarshal_init.

Theorem C03_spnego_unmarshal_resp : forall state mech mt mic tok rest,
  choice_encode 1 rfc_NegTokenResp (resp_value state mech mt mic) = Some tok ->
  int32_ok state = true -> (match mech with Some m => oid_small m = true | None => True end) -> zlen tok < 2 ^ 31 ->
  spnego_unmarshal (tok ++ rest) = Some (RResp mech (Some mt)).
Proof. exact spnego_unmarshal_resp. Qed.
Print Assumptions C03_spnego_unmarshal_resp.

Theorem C03_krb5_unmarshal_apreq : forall tk aet ac wire mt rest,
  wf_apreq tk aet ac = true -> encode rfc_APReq (inject_apreq tk aet ac) = Some wire ->
  gss_frame rfc_oid_krb5 (krb5_inner rfc_tok_id_ap_req wire) = Some mt -> zlen mt < 2 ^ 31 ->
  krb5_unmarshal (mt ++ rest) = Some (KAPReq (wire ++ rest)).
Proof. exact krb5_unmarshal_apreq. Qed.
Print Assumptions C03_krb5_unmarshal_apreq.

Theorem C03_goid_enc_oid : forall arcs o, enc_oid arcs = Some o -> oid_small arcs = true -> goid o = Some arcs.
Proof. exact goid_enc_oid. Qed.
Print Assumptions C03_goid_enc_oid.

(* what does not decode — no scheme "Negotiate", malformed base64, octets that are neither an SPNEGO token nor a raw
   KRB5 token — gets 401 with a challenge and never reaches the handler *)
Theorem C03_undecodable_401 : forall s st kt t rc hv,
  no_session s -> (forall tk, header_of_bytes st kt t rc hv <> HToken tk) ->
  r_status (serve_bytes st kt t rc s hv) = 401 /\ r_inner (serve_bytes st kt t rc s hv) = None /\
  (r_challenge (serve_bytes st kt t rc s hv) = CNegotiate \/ r_challenge (serve_bytes st kt t rc s hv) = CIncomplete).
Proof. exact undecodable_401. Qed.
Print Assumptions C03_undecodable_401.

Theorem C03_header_not_token : forall st kt t rc hv,
  (forall tk, header_of_bytes st kt t rc hv <> HToken tk) <->
  (forall value, split_space hv = Some (negotiate, value) ->
     forall b, b64_decode value = Some b -> spnego_unmarshal b = None /\ krb5_unmarshal b = None).
Proof. exact header_not_token. Qed.
Print Assumptions C03_header_not_token.

(* every request that does not reach the handler: 401 with a Negotiate challenge, or 5xx exactly when the session store
   fails after a successful authentication *)
Theorem C03_serve_bytes_refused : forall s st kt t rc hv,
  r_inner (serve_bytes st kt t rc s hv) = None ->
  (r_status (serve_bytes st kt t rc s hv) = 401 /\ r_challenge (serve_bytes st kt t rc s hv) <> CNone /\
   r_challenge (serve_bytes st kt t rc s hv) <> CAcceptCompleted) \/
  (r_status (serve_bytes st kt t rc s hv) = 500 /\ s = NoSession true).
Proof. exact serve_bytes_refused. Qed.
Print Assumptions C03_serve_bytes_refused.

Theorem C03_serve_bytes_served_200 : forall s st kt t rc hv id,
  r_inner (serve_bytes st kt t rc s hv) = Some id -> r_status (serve_bytes st kt t rc s hv) = 200.
Proof. exact serve_bytes_served_200. Qed.
Print Assumptions C03_serve_bytes_served_200.

(* no panic outcome, for any input of the compared entry points *)
Theorem C03_spnego_serve_bytes_never_panics : forall j, spnego_serve_bytes_j j <> jpanic.
Proof. exact spnego_serve_bytes_never_panics. Qed.
Print Assumptions C03_spnego_serve_bytes_never_panics.

Theorem C03_spnego_accept_bytes_never_panics : forall j, spnego_accept_bytes_j j <> jpanic.
Proof. exact spnego_accept_bytes_never_panics. Qed.
Print Assumptions C03_spnego_accept_bytes_never_panics.

Theorem C03_no_crash : forall st kt t rc b, crashes st kt t rc b = false.
Proof. exact no_crash. Qed.
Print Assumptions C03_no_crash.

(* base64.StdEncoding: decoding inverts encoding, for every octet string *)
Theorem C03_b64_decode_encode : forall b, wf_bytes b -> b64_decode (b64_encode b) = Some b.
Proof. exact b64_decode_encode. Qed.
Print Assumptions C03_b64_decode_encode.
