(* C13 (decoder side) — the messages survive decoding by the code's decoder: the Gallina re-implementations of what
   gofork/encoding/asn1 accepts for the Go types of the messages (model/GoASN1.v + APReqBytes.v for the AP-REQ family,
   model/KDCRepBytes.v for the KDC-REP family; both compared with the real decoder on every wire of the C01 / C09
   streams) read back EVERY RFC 4120 DER encoding of a value that fits Go's integer ranges, whatever follows it. *)
From Gokrb5.lib Require Import Bytes JV.
From Gokrb5.model Require Import Schema DER DERCodec RFCSchemas GoASN1 APReqBytes.
From Gokrb5.model Require KDCRepBytes.
From Gokrb5.proofs Require Import GoASN1Proofs APReqBytesProofs.
From Gokrb5.proofs Require KDCRepBytesDec.

Theorem C13_go_decoder_reads_der : forall n g v rest,
  gtag_ok n = true -> gok g = true -> g <> GRaw -> wfg g v = true ->
  zlen (enc (TApp n (erase g)) v) < 2 ^ 31 ->
  unmarshal_app n g (enc (TApp n (erase g)) v ++ rest) = Some v.
Proof. exact unmarshal_app_enc. Qed.
Print Assumptions C13_go_decoder_reads_der.

Theorem C13_go_reads_EncTicketPart : forall v rest,
  wfg go_EncTicketPart v = true -> zlen (enc rfc_EncTicketPart v) < 2 ^ 31 ->
  unmarshal_app 3 go_EncTicketPart (enc rfc_EncTicketPart v ++ rest) = Some v.
Proof.
  intros v rest Hw Hs. rewrite <- erase_EncTicketPart in *. apply unmarshal_app_enc; auto; discriminate.
Qed.
Print Assumptions C13_go_reads_EncTicketPart.

Theorem C13_go_reads_Authenticator : forall v rest,
  wfg go_Authenticator v = true -> zlen (enc rfc_Authenticator v) < 2 ^ 31 ->
  unmarshal_app 2 go_Authenticator (enc rfc_Authenticator v ++ rest) = Some v.
Proof.
  intros v rest Hw Hs. rewrite <- erase_Authenticator in *. apply unmarshal_app_enc; auto; discriminate.
Qed.
Print Assumptions C13_go_reads_Authenticator.

(* the KDC-REP family, through the second, independently written decoder model *)
Theorem C13_go_reads_KDCRep : forall app v trailing,
  0 <= app < 31 ->
  wf_val rfc_KDCRep v = true -> KDCRepBytesDec.gowf KDCRepBytes.g_KDCRep v = true ->
  zlen (enc (TApp app rfc_KDCRep) v) < 2 ^ 31 ->
  KDCRepBytes.go_unmarshal_app app KDCRepBytes.g_KDCRep (enc (TApp app rfc_KDCRep) v ++ trailing) = Some v.
Proof.
  intros app v trailing Ha Hw Hg Hs. rewrite <- KDCRepBytesDec.erase_KDCRep in *.
  apply KDCRepBytesDec.go_unmarshal_app_encode; auto.
Qed.
Print Assumptions C13_go_reads_KDCRep.

Theorem C13_go_reads_EncKDCRepPart : forall app v trailing,
  0 <= app < 31 ->
  wf_val rfc_EncKDCRepPart v = true -> KDCRepBytesDec.gowf KDCRepBytes.g_EncKDCRepPart v = true ->
  zlen (enc (TApp app rfc_EncKDCRepPart) v) < 2 ^ 31 ->
  KDCRepBytes.go_unmarshal_app app KDCRepBytes.g_EncKDCRepPart (enc (TApp app rfc_EncKDCRepPart) v ++ trailing) = Some v.
Proof.
  intros app v trailing Ha Hw Hg Hs. rewrite <- KDCRepBytesDec.erase_EncKDCRepPart in *.
  apply KDCRepBytesDec.go_unmarshal_app_encode; auto.
Qed.
Print Assumptions C13_go_reads_EncKDCRepPart.
