(* C12 — KDC exchange succeeds whenever some configured KDC and transport works. *)
From Gokrb5.lib Require Import Bytes JV.
From Gokrb5.model Require Import Network.
From Gokrb5.proofs Require Import NetworkProofs.

(* If some configured KDC answers over a permitted transport and every other endpoint refuses, closes early
   or stays silent, the exchange returns an answer one of them gave — for every server order and whichever
   transport the size preference tries first. *)
Theorem C12_failover_complete : forall mode beh ou ot,
  no_krb_errors beh ->
  (exists k x, In k ot /\ beh k TCP = Answers x) \/
  (mode <> 0 /\ exists k x, In k ou /\ beh k UDP = Answers x) ->
  exists y, fst (send_to_kdc mode beh ou ot) = Reply y /\
            exists k t, beh k t = Answers y /\ In k (match t with UDP => ou | TCP => ot end).
Proof. exact failover_complete. Qed.
Print Assumptions C12_failover_complete.

(* A KRB-ERROR from the first live KDC of the transport tried first is surfaced as that error ... *)
Theorem C12_krb_error_surfaces : forall mode beh pre k post other c,
  (forall j, In j pre -> dead (beh j (if mode =? 1 then UDP else TCP))) ->
  beh k (if mode =? 1 then UDP else TCP) = KrbError c ->
  (mode = 1 -> c <> too_big) ->
  fst (if mode =? 1 then send_to_kdc mode beh (pre ++ k :: post) other
       else send_to_kdc mode beh other (pre ++ k :: post)) = KrbErr c.
Proof. exact krb_error_surfaces. Qed.
Print Assumptions C12_krb_error_surfaces.

(* ... falling back to TCP only for response-too-big over UDP *)
Theorem C12_too_big_falls_back_to_tcp : forall beh pre k post ot,
  (forall j, In j pre -> dead (beh j UDP)) -> beh k UDP = KrbError too_big ->
  fst (send_to_kdc 1 beh (pre ++ k :: post) ot) = fst (dial_send beh TCP ot).
Proof. exact too_big_falls_back_to_tcp. Qed.
Print Assumptions C12_too_big_falls_back_to_tcp.

Theorem C12_krb_error_sound : forall mode beh ou ot c,
  fst (send_to_kdc mode beh ou ot) = KrbErr c -> exists k t, beh k t = KrbError c.
Proof. exact krb_error_sound. Qed.
Print Assumptions C12_krb_error_sound.

(* If no server works the call fails with an error, after a bounded number of attempts. *)
Theorem C12_all_dead_fails : forall mode beh ou ot,
  (forall k t, dead (beh k t)) -> fst (send_to_kdc mode beh ou ot) = CommErr.
Proof. exact all_dead_fails. Qed.
Print Assumptions C12_all_dead_fails.

Theorem C12_attempts_bounded : forall mode beh ou ot,
  (length (snd (send_to_kdc mode beh ou ot)) <= length ou + length ot)%nat.
Proof. exact attempts_bounded. Qed.
Print Assumptions C12_attempts_bounded.
