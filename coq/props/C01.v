(* C01 — Service accepts an AP-REQ exactly when RFC 4120 3.2.3 says it is valid. *)
From Gokrb5.lib Require Import Bytes JV.
From Gokrb5.model Require Import Keytab Crypto Replay APReq.
From Gokrb5.proofs Require Import APReqProofs.

(* Success if and only if: the ticket decrypts under the keytab key selected by realm, kvno and etype for the
   service (or override) principal; now lies in the ticket's validity extended by the skew; the authenticator
   decrypts under the session key, names the same client principal and realm, is timestamped within the skew;
   address requirements are met; it is not a replay.  The identity reported is the one sealed in the ticket.
   (For every ASN.1 decoder of the two encrypted parts; PAC processing is C19.) *)
Theorem C01_apreq_accept_iff : forall dec_ticket dec_auth st kt t rc tk aet ac id rc',
  verify_apreq dec_ticket dec_auth st kt t rc tk aet ac = (Accept id, rc') <->
  rfc_valid dec_ticket dec_auth st kt t rc tk ac id rc'.
Proof. exact apreq_accept_iff. Qed.
Print Assumptions C01_apreq_accept_iff.

Theorem C01_apreq_identity_from_ticket : forall dec_ticket dec_auth st kt t rc tk aet ac id rc',
  verify_apreq dec_ticket dec_auth st kt t rc tk aet ac = (Accept id, rc') ->
  exists kv ktype kvno pt et,
    get_key kt (match st_override st with Some o => o | None => tk_sname tk end)
            (tk_realm tk) (tk_kvno tk) (tk_etype tk) = Ok (kv, ktype, kvno) /\
    decrypt ktype kv 2 (tk_cipher tk) = Ok pt /\ dec_ticket pt = Some et /\
    id_username id = join_slash (et_cname et) /\ id_domain id = et_crealm et /\
    id_cname id = et_cname et /\ id_valid_until id = et_end et.
Proof. exact apreq_identity_from_ticket. Qed.
Print Assumptions C01_apreq_identity_from_ticket.

Theorem C01_apreq_reject_keeps_cache : forall dec_ticket dec_auth st kt t rc tk aet ac o rc',
  verify_apreq dec_ticket dec_auth st kt t rc tk aet ac = (o, rc') ->
  (forall id, o <> Accept id) -> rc' = rc.
Proof. exact apreq_reject_keeps_cache. Qed.
Print Assumptions C01_apreq_reject_keeps_cache.

Theorem C01_apreq_total : forall dec_ticket dec_auth st kt t rc tk aet ac,
  fst (verify_apreq dec_ticket dec_auth st kt t rc tk aet ac) <> Crash.
Proof. exact apreq_total. Qed.
Print Assumptions C01_apreq_total.
