(* C01 — Service accepts an AP-REQ exactly when RFC 4120 3.2.3 says it is valid. *)
From Gokrb5.lib Require Import Bytes JV.
From Gokrb5.model Require Import Keytab Crypto Replay Schema DER DERCodec RFCSchemas GoASN1 APReq APReqBytes.
From Gokrb5.proofs Require Import APReqProofs GoASN1Proofs APReqBytesProofs.

(* Success if and only if: the ticket decrypts under the keytab key selected by realm, kvno and etype for the
   service (or override) principal; now lies in the ticket's validity extended by the skew; the authenticator
   decrypts under the session key, names the same client principal and realm, is timestamped within the skew;
   address requirements are met; it is not a replay.  The identity reported is the one sealed in the ticket.
   (For every ASN.1 decoder of the two encrypted parts; PAC processing is C19.) *)
Theorem C01_apreq_accept_iff : forall dec_ticket dec_auth st kt t rc tk aet ac id rc',
  verify_apreq dec_ticket dec_auth st kt t rc tk aet ac = (Accept id, rc') <->
  rfc_valid dec_ticket dec_auth st kt t rc tk ac id rc'.
Proof. exact apreq_accept_iff. Qed.
Print Assumptions C01_apreq_accept_iff.

Theorem C01_apreq_identity_from_ticket : forall dec_ticket dec_auth st kt t rc tk aet ac id rc',
  verify_apreq dec_ticket dec_auth st kt t rc tk aet ac = (Accept id, rc') ->
  exists kv ktype kvno pt et,
    get_key kt (match st_override st with Some o => o | None => tk_sname tk end)
            (tk_realm tk) (tk_kvno tk) (tk_etype tk) = Ok (kv, ktype, kvno) /\
    decrypt ktype kv 2 (tk_cipher tk) = Ok pt /\ dec_ticket pt = Some et /\
    id_username id = join_slash (et_cname et) /\ id_domain id = et_crealm et /\
    id_cname id = et_cname et /\ id_valid_until id = et_end et.
Proof. exact apreq_identity_from_ticket. Qed.
Print Assumptions C01_apreq_identity_from_ticket.

Theorem C01_apreq_reject_keeps_cache : forall dec_ticket dec_auth st kt t rc tk aet ac o rc',
  verify_apreq dec_ticket dec_auth st kt t rc tk aet ac = (o, rc') ->
  (forall id, o <> Accept id) -> rc' = rc.
Proof. exact apreq_reject_keeps_cache. Qed.
Print Assumptions C01_apreq_reject_keeps_cache.

Theorem C01_apreq_total : forall dec_ticket dec_auth st kt t rc tk aet ac,
  fst (verify_apreq dec_ticket dec_auth st kt t rc tk aet ac) <> Crash.
Proof. exact apreq_total. Qed.
Print Assumptions C01_apreq_total.

(* ================= bytes mode: the model starts from the WIRE BYTES of the AP-REQ =================
   model/APReqBytes.v: APReq.Unmarshal, Ticket.Unmarshal, EncTicketPart.Unmarshal, Authenticator.Unmarshal as gofork
   asn1 decodes them (model/GoASN1.v, a Gallina re-implementation of the decoder), ending in the decision core above. *)
(* Go's decoder reads back every DER encoding of the erased RFC type (explicit context tags, values within Go's
   integer ranges), through [APPLICATION n], whatever follows the element. *)
Theorem C01_unmarshal_reads_der : forall n g v rest,
  gtag_ok n = true -> gok g = true -> g <> GRaw -> wfg g v = true ->
  zlen (enc (TApp n (erase g)) v) < 2 ^ 31 ->
  unmarshal_app n g (enc (TApp n (erase g)) v ++ rest) = Some v.
Proof. exact unmarshal_app_enc. Qed.
Print Assumptions C01_unmarshal_reads_der.

(* The decoders of the two encrypted parts invert the RFC 4120 DER encoding of every well-formed sealed content,
   whatever follows it (padding). *)
Theorem C01_dec_ticket_der_encode : forall et pt rest,
  wf_enc_ticket et = true -> encode rfc_EncTicketPart (inject_enc_ticket et) = Some pt -> zlen pt < 2 ^ 31 ->
  dec_ticket_der (pt ++ rest) = Some et.
Proof. exact dec_ticket_der_encode. Qed.
Print Assumptions C01_dec_ticket_der_encode.

Theorem C01_dec_auth_der_encode : forall au pt rest,
  wf_authenticator au = true -> encode rfc_Authenticator (inject_authenticator au) = Some pt -> zlen pt < 2 ^ 31 ->
  dec_auth_der (pt ++ rest) = Some au.
Proof. exact dec_auth_der_encode. Qed.
Print Assumptions C01_dec_auth_der_encode.

(* APReq.Unmarshal on the RFC 4120 DER encoding of a well-formed AP-REQ returns its cleartext ticket and the
   authenticator's etype and cipher. *)
Theorem C01_parse_apreq_encode : forall tk aet ac wire rest,
  wf_apreq tk aet ac = true -> encode rfc_APReq (inject_apreq tk aet ac) = Some wire -> zlen wire < 2 ^ 31 ->
  parse_apreq (wire ++ rest) = Some (tk, aet, ac).
Proof. exact parse_apreq_encode. Qed.
Print Assumptions C01_parse_apreq_encode.

(* Refinement: from the wire bytes of a well-formed AP-REQ, when the decrypted parts decode to et and au, the verdict
   and the replay cache are those of the sealed-content model (C01_apreq_accept_iff etc. speak about it). *)
Theorem C01_verify_apreq_bytes_refines : forall st kt t rc tk aet ac wire rest et au,
  wf_apreq tk aet ac = true -> encode rfc_APReq (inject_apreq tk aet ac) = Some wire -> zlen wire < 2 ^ 31 ->
  (forall kv ktype kvno pt,
     get_key kt (match st_override st with Some o => o | None => tk_sname tk end)
             (tk_realm tk) (tk_kvno tk) (tk_etype tk) = Ok (kv, ktype, kvno) ->
     decrypt ktype kv 2 (tk_cipher tk) = Ok pt -> dec_ticket_der pt = Some et) ->
  (forall apt, decrypt (et_keytype et) (et_key et) (auth_usage (tk_sname tk)) ac = Ok apt -> dec_auth_der apt = Some au) ->
  verify_apreq_bytes st kt t rc (wire ++ rest) =
  verify_apreq (fun _ => Some et) (fun _ => Some au) st kt t rc tk aet ac.
Proof. exact verify_apreq_bytes_refines. Qed.
Print Assumptions C01_verify_apreq_bytes_refines.

(* ... with the decoder hypotheses discharged: the two plaintexts are RFC 4120 DER encodings followed by anything. *)
Theorem C01_verify_apreq_bytes_refines_der : forall st kt t rc tk aet ac wire rest et au ept pad apt0 apad,
  wf_apreq tk aet ac = true -> encode rfc_APReq (inject_apreq tk aet ac) = Some wire -> zlen wire < 2 ^ 31 ->
  wf_enc_ticket et = true -> encode rfc_EncTicketPart (inject_enc_ticket et) = Some ept -> zlen ept < 2 ^ 31 ->
  wf_authenticator au = true -> encode rfc_Authenticator (inject_authenticator au) = Some apt0 -> zlen apt0 < 2 ^ 31 ->
  (forall kv ktype kvno pt,
     get_key kt (match st_override st with Some o => o | None => tk_sname tk end)
             (tk_realm tk) (tk_kvno tk) (tk_etype tk) = Ok (kv, ktype, kvno) ->
     decrypt ktype kv 2 (tk_cipher tk) = Ok pt -> pt = ept ++ pad) ->
  (forall apt, decrypt (et_keytype et) (et_key et) (auth_usage (tk_sname tk)) ac = Ok apt -> apt = apt0 ++ apad) ->
  verify_apreq_bytes st kt t rc (wire ++ rest) =
  verify_apreq (fun _ => Some et) (fun _ => Some au) st kt t rc tk aet ac.
Proof. exact verify_apreq_bytes_refines_der. Qed.
Print Assumptions C01_verify_apreq_bytes_refines_der.

(* Nothing unsealed counts: a well-formed plaintext EncTicketPart after enc-part (Ticket.DecryptedEncPart is filled
   from it at Unmarshal) changes neither what is parsed, nor the verdict, nor the replay cache. *)
Theorem C01_unsealed_trailer_ignored : forall st kt t rc tk aet ac tv rest,
  wf_apreq tk aet ac = true -> wfg go_EncTicketPart tv = true ->
  zlen (apreq_wire (ticket_wire tk (Some tv)) aet ac) < 2 ^ 31 ->
  zlen (apreq_wire (ticket_wire tk None) aet ac) < 2 ^ 31 ->
  parse_apreq (apreq_wire (ticket_wire tk (Some tv)) aet ac ++ rest) =
  parse_apreq (apreq_wire (ticket_wire tk None) aet ac ++ rest)
  /\ verify_apreq_bytes st kt t rc (apreq_wire (ticket_wire tk (Some tv)) aet ac ++ rest) =
     verify_apreq_bytes st kt t rc (apreq_wire (ticket_wire tk None) aet ac ++ rest).
Proof. exact unsealed_trailer_ignored. Qed.
Print Assumptions C01_unsealed_trailer_ignored.

(* the wire without trailer is the RFC 4120 encoding *)
Theorem C01_apreq_wire_rfc : forall tk aet ac,
  apreq_wire (ticket_wire tk None) aet ac = enc rfc_APReq (inject_apreq tk aet ac).
Proof. exact apreq_wire_rfc. Qed.
Print Assumptions C01_apreq_wire_rfc.

(* Totality: no wire input makes the acceptor panic; what does not parse is rejected and leaves the cache alone. *)
Theorem C01_verify_apreq_bytes_total : forall st kt t rc wire, fst (verify_apreq_bytes st kt t rc wire) <> Crash.
Proof. exact verify_apreq_bytes_total. Qed.
Print Assumptions C01_verify_apreq_bytes_total.

Theorem C01_parse_failure_rejects : forall st kt t rc wire,
  parse_apreq wire = None -> verify_apreq_bytes st kt t rc wire = (Reject reject_unparsable, rc).
Proof. exact parse_failure_rejects. Qed.
Print Assumptions C01_parse_failure_rejects.

(* Acceptance from bytes is the RFC 4120 3.2.3 conjunction of C01 on what was parsed, with the real decoders. *)
Theorem C01_verify_apreq_bytes_accept_iff : forall st kt t rc wire id rc',
  verify_apreq_bytes st kt t rc wire = (Accept id, rc') <->
  exists tk aet ac, parse_apreq wire = Some (tk, aet, ac) /\
                    rfc_valid dec_ticket_der dec_auth_der st kt t rc tk ac id rc'.
Proof. exact verify_apreq_bytes_accept_iff. Qed.
Print Assumptions C01_verify_apreq_bytes_accept_iff.

Theorem C01_verify_apreq_bytes_reject_keeps_cache : forall st kt t rc wire o rc',
  verify_apreq_bytes st kt t rc wire = (o, rc') -> (forall id, o <> Accept id) -> rc' = rc.
Proof. exact verify_apreq_bytes_reject_keeps_cache. Qed.
Print Assumptions C01_verify_apreq_bytes_reject_keeps_cache.
