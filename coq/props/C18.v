(* C18 — SPNEGO HTTP client authenticates once, replays the body, and terminates. *)
From Gokrb5.lib Require Import Bytes JV.
From Gokrb5.model Require Import HttpClient.
From Gokrb5.proofs Require Import HttpClientProofs HttpClientTrace.

(* For every sequence of server responses the call returns - the server's final response or the
   redirect-limit error - after at most 22 requests. *)
Theorem C18_do_terminates : forall script,
  exists o, do_ 64 script 0 0 false [] = o /\ o <> OutOfFuel /\ (length (sent_of o) <= 22)%nat.
Proof. exact do_terminates. Qed.
Print Assumptions C18_do_terminates.

Theorem C18_do_terminates_general : forall fuel script i redirects authed sent,
  (measure redirects authed < fuel)%nat ->
  do_ fuel script i redirects authed sent <> OutOfFuel /\
  (length (sent_of (do_ fuel script i redirects authed sent)) <= length sent + 2 * (10 - redirects) + 2)%nat.
Proof. exact do_terminates_general. Qed.
Print Assumptions C18_do_terminates_general.

(* A token is attached only in answer to a bare challenge and never to two consecutive requests. *)
Theorem C18_no_two_tokens_in_a_row : forall script k,
  nth_error (sent_of (do_ 64 script 0 0 false [])) k = Some true ->
  nth_error (sent_of (do_ 64 script 0 0 false [])) (S k) = Some true -> False.
Proof. exact no_two_tokens_in_a_row. Qed.
Print Assumptions C18_no_two_tokens_in_a_row.

(* The code as pinned diverged: witness script "always 401 Negotiate". *)
Theorem C18_do_pinned_diverges_refuted : forall fuel i redirects authed sent,
  do_pinned fuel (fun _ => R401Nego) i redirects authed sent = OutOfFuel.
Proof. exact do_pinned_diverges_refuted. Qed.
Print Assumptions C18_do_pinned_diverges_refuted.

(* What is returned and how it was reached: the request flags start with a token-less request; every exchange
   but the last is a bare challenge to a token-less request answered with a token, or a redirect followed by
   a token-less request; the value returned is the server's response to the last request sent - never a
   redirect (the redirect-limit error apart), never a bare challenge that was not answered with a token. *)
Theorem C18_returns_final_response : forall script,
  let o := do_ 64 script 0 0 false [] in
  exists ext, sent_of o = false :: ext /\ returned_ok script 0 (false :: ext) o /\
              (forall k, (k < length ext)%nat -> step_ok script 0 (false :: ext) k).
Proof. exact do_trace_fresh. Qed.
Print Assumptions C18_returns_final_response.

(* the client retries a bare challenge with an Authorization header *)
Theorem C18_challenge_answered_with_token : forall script k,
  let fl := sent_of (do_ 64 script 0 0 false []) in
  (S k < length fl)%nat -> script k = R401Nego -> nth k fl true = false -> nth (S k) fl false = true.
Proof. exact challenge_answered. Qed.
Print Assumptions C18_challenge_answered_with_token.

(* a token never follows a redirect to the next hop *)
Theorem C18_redirect_drops_token : forall script k,
  let fl := sent_of (do_ 64 script 0 0 false []) in
  (S k < length fl)%nat -> script k = R302 -> nth (S k) fl true = false.
Proof. exact redirect_drops_token. Qed.
Print Assumptions C18_redirect_drops_token.
