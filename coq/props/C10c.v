(* C10 (third layer) — the AS exchange of a login: "login obtains a TGT ... the requests sent ... carry correctly
   computed pre-authentication ... referral chains are followed only up to a fixed bound". *)
From Gokrb5.lib Require Import Bytes JV.
From Gokrb5.model Require Import ASExchange.
From Gokrb5.proofs Require Import ASExchangeProofs.

(* For every sequence of KDC answers (replies, demands for pre-authentication, client referrals, other errors, silence)
   the AS exchange ends - with a reply or an error - after at most 8 requests. *)
Theorem C10_as_exchange_terminates : forall script assume,
  as_exchange 32 script 0 0 assume [] <> AOutOfFuel /\
  (length (ts_of (as_exchange 32 script 0 0 assume [])) <= 8)%nat.
Proof. exact as_terminates. Qed.
Print Assumptions C10_as_exchange_terminates.

(* What every request looked like: the first carries a timestamp exactly when the client already assumes
   pre-authentication; every later one follows a pre-authentication demand (then it carries a timestamp and is the last)
   or a referral (then it carries what the first carried); success is the KDC's AS-REP to the last request sent; a client
   that assumed pre-authentication still does afterwards. *)
Theorem C10_as_exchange_trace : forall script assume,
  let o := as_exchange 32 script 0 0 assume [] in
  exists ext, ts_of o = assume :: ext /\ as_result_ok script 0 (assume :: ext) o /\
              (forall k, (k < length ext)%nat -> as_step_ok script 0 assume (assume :: ext) k) /\
              (assume = true -> assume_of o = true).
Proof. exact as_trace_fresh. Qed.
Print Assumptions C10_as_exchange_trace.

(* a demand for pre-authentication is answered with a PA-ENC-TIMESTAMP, once *)
Theorem C10_preauth_demand_answered : forall script assume k,
  let fl := ts_of (as_exchange 32 script 0 0 assume []) in
  (S k < length fl)%nat -> (script k = ANeedPreauth \/ script k = APreauthFailed) ->
  nth (S k) fl false = true /\ S (S k) = length fl.
Proof. exact preauth_demand_answered. Qed.
Print Assumptions C10_preauth_demand_answered.
