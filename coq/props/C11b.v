(* C11 (second layer) — "Every (ticket, session key) pair returned was issued together by the KDC": the sequential
   core of that clause (one client, any history, served and refused renewals, any source of session keys).  Under
   concurrency the same cache operations run under Cache.mux (lockset obligations of props/C11.v); the harness
   checks the pairs of concurrent requests against the simulated KDC's issue log. *)
From Gokrb5.lib Require Import Bytes JV.
From Gokrb5.model Require Import ClientPairs.
From Gokrb5.proofs Require Import ClientPairsProofs.

Theorem C11_pairs_issued_together : forall keysrc ops s,
  pcache_from_log s ->
  forall o a s', In (o, Some a, s') (pstates keysrc s ops) ->
  exists spn now, o = PGet spn now /\ a <> PLost /\
    forall t k, pair_of a = Some (t, k) -> In (t, spn, k) (pk_log (ps_kdc s')).
Proof. exact pairs_issued_together. Qed.
Print Assumptions C11_pairs_issued_together.
