(* C16 — krb5.conf parsing, realm resolution and KDC selection follow MIT semantics. *)
From Coq Require Import Permutation.
From Gokrb5.lib Require Import Bytes JV GoString.
From Gokrb5.model Require Import Krb5Conf Hosts.
From Gokrb5.proofs Require Import Krb5ConfResolve Krb5ConfValues Krb5ConfParse HostsProofs.

(* --- host-to-realm resolution: the exact mapping if any, else the mapping of the longest suffix of the name
   that starts at a dot and is mapped, else "" (one trailing dot of the name is dropped first) --- *)
Theorem C16_resolve_realm_most_specific : forall (m : dmap) (name : bytes),
  let h := trim_suffix name [46] in
  exists r, resolve_realm m name = Ok r /\
  match lookup h m with
  | Some x => r = x
  | None =>
    (exists s, is_dot_suffix s h /\ lookup s m = Some r /\
               forall s', is_dot_suffix s' h -> (length s' > length s)%nat -> lookup s' m = None)
    \/ ((forall s, is_dot_suffix s h -> lookup s m = None) /\ r = [])
  end.
Proof. exact resolve_realm_most_specific. Qed.
Print Assumptions C16_resolve_realm_most_specific.

(* --- KDC selection: for every sequence of rand.Intn results the map has the keys 1..n, its values are the
   configured servers each exactly once, and the configured list is unchanged --- *)
Theorem C16_rand_serv_order_perm : forall (servers : list bytes) (oracle : list Z),
  servers <> [] ->
  exists vals, rand_serv_order servers oracle = Ok (vals, servers) /\
               Permutation vals servers /\
               map fst (numbered 1 vals) = map (fun k => 1 + Z.of_nat k) (seq 0 (length servers)) /\
               map snd (numbered 1 vals) = vals.
Proof. exact rand_serv_order_perm. Qed.
Print Assumptions C16_rand_serv_order_perm.

Theorem C16_get_kdcs_each_once : forall (c : hcfg) (rname : bytes) (oracle : list Z),
  let name := if is_nil rname then h_default_realm c else rname in
  let ks := last_kdcs name (h_realms c) in
  ks <> [] ->
  exists vals, get_kdcs c rname oracle = Ok (zlen ks, numbered 1 vals, c) /\
               Permutation vals ks /\
               map fst (numbered 1 vals) = map (fun k => 1 + Z.of_nat k) (seq 0 (length ks)) /\
               map snd (numbered 1 vals) = vals.
Proof. exact get_kdcs_each_once. Qed.
Print Assumptions C16_get_kdcs_each_once.

Theorem C16_get_kpasswd_each_once : forall (c : hcfg) (rname : bytes) (oracle : list Z) (r : realm),
  h_dns_lookup_kdc c = false ->
  first_realm rname (h_realms c) = Some r -> r_kpw r <> [] ->
  exists vals, get_kpasswd_servers c rname oracle = Ok (zlen (r_kpw r), numbered 1 vals, c) /\
               Permutation vals (r_kpw r) /\
               map fst (numbered 1 vals) = map (fun k => 1 + Z.of_nat k) (seq 0 (length (r_kpw r))) /\
               map snd (numbered 1 vals) = vals.
Proof. exact get_kpasswd_each_once. Qed.
Print Assumptions C16_get_kpasswd_each_once.

(* the code before fix-2 permuted the configuration *)
Theorem C16_rand_serv_order_unrepaired_modifies_config :
  exists servers oracle vals arr,
    rand_serv_order_unrepaired servers oracle = Ok (vals, arr) /\ arr <> servers.
Proof. exact rand_serv_order_unrepaired_modifies_config. Qed.
Print Assumptions C16_rand_serv_order_unrepaired_modifies_config.

(* --- values: every documented boolean spelling, with any surrounding white space --- *)
Theorem C16_bool_spellings : forall sp v a b,
  In (sp, v) bool_table -> all_space a -> all_space b -> parse_boolean (a ++ sp ++ b) = Ok v.
Proof. exact bool_spellings. Qed.
Print Assumptions C16_bool_spellings.

(* --- durations: N, h:m:s, h:m, NhNmNs (any components in any order), NdNhNmNs; digit strings of any length
   (leading zeros included) for all component values in range --- *)
Theorem C16_duration_seconds : forall ds a b, digits ds -> all_space a -> all_space b ->
  0 < dval ds < 2 ^ 32 ->
  parse_duration (a ++ ds ++ b) = Ok (dval ds * second_ns).
Proof. exact duration_seconds. Qed.
Print Assumptions C16_duration_seconds.

Theorem C16_duration_h_m_s : forall dh dm dsec a b,
  digits dh -> digits dm -> digits dsec -> all_space a -> all_space b ->
  dval dh < 2 ^ 15 -> dval dm < 2 ^ 15 -> dval dsec < 2 ^ 15 ->
  parse_duration (a ++ (dh ++ 58 :: dm ++ 58 :: dsec) ++ b)
  = Ok (dval dh * hour_ns + dval dm * minute_ns + dval dsec * second_ns).
Proof. exact duration_h_m_s. Qed.
Print Assumptions C16_duration_h_m_s.

Theorem C16_duration_h_m : forall dh dm a b,
  digits dh -> digits dm -> all_space a -> all_space b ->
  dval dh < 2 ^ 15 -> dval dm < 2 ^ 15 ->
  parse_duration (a ++ (dh ++ 58 :: dm) ++ b) = Ok (dval dh * hour_ns + dval dm * minute_ns).
Proof. exact duration_h_m. Qed.
Print Assumptions C16_duration_h_m.

Theorem C16_duration_units : forall l a b,
  l <> [] -> Forall comp_ok l -> all_space a -> all_space b -> comps_value l < 2 ^ 62 ->
  parse_duration (a ++ render_comps l ++ b) = Ok (comps_value l).
Proof. exact duration_units. Qed.
Print Assumptions C16_duration_units.

Theorem C16_duration_days : forall dd l a b,
  digits dd -> dval dd < 2 ^ 32 -> Forall comp_ok l -> all_space a -> all_space b ->
  dval dd * 24 * hour_ns + comps_value l < 2 ^ 62 ->
  parse_duration (a ++ (dd ++ 100 :: render_comps l) ++ b) = Ok (dval dd * 24 * hour_ns + comps_value l).
Proof. exact duration_days. Qed.
Print Assumptions C16_duration_days.

(* --- enctype lists --- *)
Theorem C16_parse_etypes_supported : forall names w,
  Forall (fun i => In i [17; 18; 19; 20; 16; 23]) (parse_etypes names w).
Proof. exact parse_etypes_supported. Qed.
Print Assumptions C16_parse_etypes_supported.

Theorem C16_parse_etypes_app : forall a b w, parse_etypes (a ++ b) w = parse_etypes a w ++ parse_etypes b w.
Proof. exact parse_etypes_app. Qed.
Print Assumptions C16_parse_etypes_app.

(* --- final-value marker: values after the first marked one are ignored --- *)
Theorem C16_append_until_final_spec : forall pre r post,
  Forall (fun v => ~ marked v) pre ->
  auf_fold (pre ++ (r ++ [42]) :: post) ([], false) = (pre ++ [r], true).
Proof. exact append_until_final_spec. Qed.
Print Assumptions C16_append_until_final_spec.

Theorem C16_append_until_final_no_marker : forall vals,
  Forall (fun v => ~ marked v) vals -> auf_fold vals ([], false) = (vals, false).
Proof. exact append_until_final_no_marker. Qed.
Print Assumptions C16_append_until_final_no_marker.

(* --- loading never indexes or slices out of range (repaired code) --- *)
Theorem C16_parse_total : forall client_keytab k5login_dir text,
  is_panic (parse_config client_keytab k5login_dir text) = false.
Proof. exact parse_total. Qed.
Print Assumptions C16_parse_total.

(* --- structurally invalid shapes are errors --- *)
Theorem C16_ld_section_no_equals_rejected : forall l a line b,
  trim_space (strip_comment line) <> [] -> contains_byte 61 (trim_space (strip_comment line)) = false ->
  is_ok (ld_parse_lines l (a ++ line :: b)) = false.
Proof. exact ld_section_no_equals_rejected. Qed.
Print Assumptions C16_ld_section_no_equals_rejected.

Theorem C16_dr_line_no_equals_rejected : forall d line,
  trim_space (strip_comment line) <> [] -> contains_byte 61 (strip_comment line) = false ->
  dr_line d line = Err invalid.
Proof. exact dr_line_no_equals_rejected. Qed.
Print Assumptions C16_dr_line_no_equals_rejected.

Theorem C16_realm_line_no_equals_rejected : forall st line,
  (rs_ignore st && (0 <? rs_c st) && negb (contains_byte 123 line) && negb (contains_byte 125 line)) = false ->
  trim_space (strip_comment line) <> [] ->
  contains_byte 61 (trim_space (strip_comment line)) = false ->
  contains_byte 125 (trim_space (strip_comment line)) = false ->
  realm_line st line = Err invalid.
Proof. exact realm_line_no_equals_rejected. Qed.
Print Assumptions C16_realm_line_no_equals_rejected.

Theorem C16_realm_line_extra_close_rejected : forall st line,
  rs_c st = 0 -> rs_ignore st = false ->
  contains_byte 125 (trim_space (strip_comment line)) = true ->
  contains_byte 123 (trim_space (strip_comment line)) = false ->
  realm_line st line = Err invalid.
Proof. exact realm_line_extra_close_rejected. Qed.
Print Assumptions C16_realm_line_extra_close_rejected.

Theorem C16_realms_unterminated_rejected : forall name_line body,
  contains_byte 123 (trim_space (strip_comment name_line)) = true ->
  contains_byte 125 (trim_space (strip_comment name_line)) = false ->
  Forall (fun l0 => contains_byte 125 (trim_space (strip_comment l0)) = false) body ->
  is_ok (parse_realms (name_line :: body)) = false.
Proof. exact realms_unterminated_rejected. Qed.
Print Assumptions C16_realms_unterminated_rejected.

(* --- parse (render cfg layout) = cfg, per relation line only (the whole-file statement is not proved):
   <ws> key <ws> = <ws> value <ws> [# or ; comment], the key in any case --- *)
Theorem C16_ld_line_relation_partial : forall ws1 key' ws2 ws3 val ws4 cmt,
  all_space ws1 -> all_space ws2 -> all_space ws3 -> all_space ws4 ->
  forallb plain key' = true -> forallb plain val = true ->
  no_edge_space key' -> no_edge_space val -> key' <> [] -> val <> [] -> comment_tail cmt ->
  forall (l : ld) (k : kind) (v : lval),
  lookup (to_lower key') ld_keys = Some k -> parse_val k val = Ok (Some v) ->
  ld_line l (rendered ws1 key' ws2 ws3 val ws4 cmt) = Ok (ld_set (to_lower key') v l).
Proof. exact ld_line_relation_partial. Qed.
Print Assumptions C16_ld_line_relation_partial.

Theorem C16_ld_line_bool_partial : forall l key ws1 ws2 ws3 ws4 cmt sp v,
  In key bool_keys -> In (sp, v) bool_table ->
  all_space ws1 -> all_space ws2 -> all_space ws3 -> all_space ws4 -> comment_tail cmt ->
  ld_line l (rendered ws1 key ws2 ws3 sp ws4 cmt) = Ok (ld_set key (VB v) l).
Proof. exact ld_line_bool_partial. Qed.
Print Assumptions C16_ld_line_bool_partial.

Theorem C16_dr_line_relation_partial : forall ws1 key' ws2 ws3 val ws4 cmt,
  all_space ws1 -> all_space ws2 -> all_space ws3 -> all_space ws4 ->
  forallb plain key' = true -> forallb plain val = true ->
  no_edge_space key' -> no_edge_space val -> key' <> [] -> val <> [] -> comment_tail cmt ->
  forall d : dmap,
  dr_line d (rendered ws1 key' ws2 ws3 val ws4 cmt) = Ok ((to_lower key', val) :: d).
Proof. exact dr_line_relation_partial. Qed.
Print Assumptions C16_dr_line_relation_partial.

Theorem C16_realm_line_relation_partial : forall ws1 key' ws2 ws3 val ws4 cmt,
  all_space ws1 -> all_space ws2 -> all_space ws3 -> all_space ws4 ->
  forallb plain key' = true -> forallb plain val = true ->
  no_edge_space key' -> no_edge_space val -> key' <> [] -> val <> [] -> comment_tail cmt ->
  forall st : rstate,
  rs_c st = 0 ->
  contains S_v4_tag (core key' ws2 ws3 val) = false ->
  contains_byte 123 (core key' ws2 ws3 val) = false ->
  contains_byte 125 (core key' ws2 ws3 val) = false ->
  realm_line st (rendered ws1 key' ws2 ws3 val ws4 cmt) = Ok (realm_relation st (to_lower key') val).
Proof. exact realm_line_relation_partial. Qed.
Print Assumptions C16_realm_line_relation_partial.
