(* C09 — Client accepts a KDC reply only if it answers the request it sent. *)
From Gokrb5.lib Require Import Bytes JV.
From Gokrb5.model Require Import Keytab Crypto PAData Replay APReq KDCRep.
From Gokrb5.proofs Require Import KDCRepProofs.

(* AS exchange: success iff the reply names the requested client and realm, its encrypted part decrypts under
   the client's own long-term key (keytab entry for the reply's kvno/etype, or the key derived as the KDC
   advertised) with usage 3, and the nonce, server name and realm it carries match the request, addresses
   match when requested, and the KDC time is within the skew. *)
Theorem C09_asrep_accept_iff : forall dec_enc skew c rq rp t,
  asrep_verify dec_enc skew c rq rp t = Ok true <-> as_valid dec_enc skew c rq rp t.
Proof. exact asrep_accept_iff. Qed.
Print Assumptions C09_asrep_accept_iff.

(* TGS exchange: success iff the encrypted part decrypts under the TGT session key with usage 8 and the
   nonce, client, ticket realm and server realm match the request, addresses are contained, time within skew. *)
Theorem C09_tgsrep_accept_iff : forall dec_enc skew stype skey rq rp t,
  tgsrep_verify dec_enc skew stype skey rq rp t = Ok true <-> tgs_valid dec_enc skew stype skey rq rp t.
Proof. exact tgsrep_accept_iff. Qed.
Print Assumptions C09_tgsrep_accept_iff.

Theorem C09_stale_reply_rejected : forall dec_enc skew c rq rq' rp t pt er kv ktype,
  as_key c rp = Ok (kv, ktype) -> decrypt ktype kv 3 (rp_cipher rp) = Ok pt -> dec_enc pt = Some er ->
  er_nonce er = rq_nonce rq -> rq_nonce rq' <> rq_nonce rq ->
  asrep_verify dec_enc skew c rq' rp t <> Ok true.
Proof. exact stale_reply_rejected. Qed.
Print Assumptions C09_stale_reply_rejected.
