(* C10 (second layer) — tickets AND session keys: "a service-ticket request for an SPN returns a ticket the KDC issued
   for that SPN together with the session key issued with it". *)
From Gokrb5.lib Require Import Bytes JV.
From Gokrb5.model Require Import ClientPairs.
From Gokrb5.proofs Require Import ClientPairsProofs.

(* For every source of session keys, every history of requests and destroys from the empty client, whether the KDC
   serves or refuses renewals, whatever the difference between its clock and the client's: every (ticket, key) pair handed back is in the KDC's issue log for the SPN asked for,
   and renewTicket never fails to find the renewed entry. *)
Theorem C10_pairs_issued_together : forall keysrc life renew serves ahead ops o a s',
  In (o, Some a, s') (pstates keysrc (mkPS [] (mkPK 0 life renew serves ahead [])) ops) ->
  exists spn now, o = PGet spn now /\ a <> PLost /\
    forall t k, pair_of a = Some (t, k) -> In (t, spn, k) (pk_log (ps_kdc s')).
Proof. exact pairs_issued_together_fresh. Qed.
Print Assumptions C10_pairs_issued_together.

(* one step, from any state whose cache came from the KDC; the invariant is kept *)
Theorem C10_get_pair_from_log : forall keysrc s spn now a s',
  pcache_from_log s -> pget keysrc s spn now = (a, s') ->
  a <> PLost /\
  (forall t k, pair_of a = Some (t, k) -> In (t, spn, k) (pk_log (ps_kdc s'))) /\
  pcache_from_log s'.
Proof. exact pget_pair_from_log. Qed.
Print Assumptions C10_get_pair_from_log.
