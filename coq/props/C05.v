(* C05 — Message encryption interoperates with the RFC definitions for all six etypes (first layer).
   `encrypt_with` / `decrypt` (model/Crypto.v) are the independent RFC implementation; byte-for-byte
   agreement with gokrb5 in both directions is the correspondence stream. *)
From Gokrb5.lib Require Import Bytes JV.
From Gokrb5.model Require Import Crypto.
From Gokrb5.prim Require CBC RC4.
From Gokrb5.proofs Require Import CryptoBasic CTSProofs CryptoRoundTrip.

Theorem C05_rc4_usage_alias : forall u,
  rc4_msg_type u = le_bytes 4 (rc4_alias u) /\ length (rc4_msg_type u) = 4%nat.
Proof. exact rc4_usage_alias. Qed.
Print Assumptions C05_rc4_usage_alias.

Theorem C05_rc4_msg_type_injective : forall u1 u2,
  0 <= u1 < 2 ^ 32 -> 0 <= u2 < 2 ^ 32 ->
  (rc4_msg_type u1 = rc4_msg_type u2 <-> rc4_alias u1 = rc4_alias u2).
Proof. exact rc4_msg_type_injective. Qed.
Print Assumptions C05_rc4_msg_type_injective.

(* ---- round trip: whatever the RFC model encrypts it decrypts to the same plaintext ----
   The block cipher enters through its inverse property only (premise); RC4 needs none. *)
Theorem C05_cts_roundtrip : forall (enc dec : bytes -> bytes),
  (forall b, length b = 16%nat -> dec (enc b) = b) ->
  (forall b, length b = 16%nat -> length (enc b) = 16%nat) ->
  forall d, (16 <= length d)%nat -> cts_decrypt dec (cts_encrypt enc d) = Ok d.
Proof. exact cts_roundtrip. Qed.
Print Assumptions C05_cts_roundtrip.

Theorem C05_aes_sha1_roundtrip :
  (forall ke b, length b = 16%nat -> aes_ecb_dec ke (aes_ecb ke b) = b) ->
  forall et key usage conf msg ct,
  et_family et = Some FAesSha1 -> length conf = 16%nat ->
  encrypt_with et key usage conf msg = Ok ct -> decrypt et key usage ct = Ok msg.
Proof. exact aes_sha1_roundtrip. Qed.
Print Assumptions C05_aes_sha1_roundtrip.

Theorem C05_aes_sha2_roundtrip :
  (forall ke b, length b = 16%nat -> aes_ecb_dec ke (aes_ecb ke b) = b) ->
  forall et key usage conf msg ct,
  et_family et = Some FAesSha2 -> length conf = 16%nat ->
  encrypt_with et key usage conf msg = Ok ct -> decrypt et key usage ct = Ok msg.
Proof. exact aes_sha2_roundtrip. Qed.
Print Assumptions C05_aes_sha2_roundtrip.

(* des3: "up to the zero padding RFC 3961 prescribes" *)
Theorem C05_des3_roundtrip :
  (forall ke b, length b = 8%nat -> des3_ecb_dec ke (des3_ecb ke b) = b) ->
  forall key usage conf msg ct,
  length conf = 8%nat ->
  encrypt_with 16 key usage conf msg = Ok ct ->
  decrypt 16 key usage ct = Ok (msg ++ zeros ((8 - length (conf ++ msg) mod 8) mod 8)).
Proof. exact des3_roundtrip. Qed.
Print Assumptions C05_des3_roundtrip.

Theorem C05_rc4_roundtrip : forall key usage conf msg ct,
  length conf = 8%nat ->
  encrypt_with 23 key usage conf msg = Ok ct -> decrypt 23 key usage ct = Ok msg.
Proof. exact rc4_roundtrip. Qed.
Print Assumptions C05_rc4_roundtrip.
