(* C05 — Message encryption interoperates with the RFC definitions for all six etypes (first layer).
   `encrypt_with` / `decrypt` (model/Crypto.v) are the independent RFC implementation; byte-for-byte
   agreement with gokrb5 in both directions is the correspondence stream. *)
From Gokrb5.lib Require Import Bytes JV.
From Gokrb5.model Require Import Crypto.
From Gokrb5.proofs Require Import CryptoBasic.

Theorem C05_rc4_usage_alias : forall u,
  rc4_msg_type u = le_bytes 4 (rc4_alias u) /\ length (rc4_msg_type u) = 4%nat.
Proof. exact rc4_usage_alias. Qed.
Print Assumptions C05_rc4_usage_alias.

Theorem C05_rc4_msg_type_injective : forall u1 u2,
  0 <= u1 < 2 ^ 32 -> 0 <= u2 < 2 ^ 32 ->
  (rc4_msg_type u1 = rc4_msg_type u2 <-> rc4_alias u1 = rc4_alias u2).
Proof. exact rc4_msg_type_injective. Qed.
Print Assumptions C05_rc4_msg_type_injective.
