(* C05 — Message encryption interoperates with the RFC definitions for all six etypes (first layer).
   `encrypt_with` / `decrypt` (model/Crypto.v) are the independent RFC implementation; byte-for-byte
   agreement with gokrb5 in both directions is the correspondence stream. *)
From Gokrb5.lib Require Import Bytes JV.
From Gokrb5.model Require Import Crypto.
From Gokrb5.prim Require CBC RC4.
From Gokrb5.proofs Require Import CryptoBasic CTSProofs CryptoWf CryptoRoundTrip CryptoLengths.

Theorem C05_rc4_usage_alias : forall u,
  rc4_msg_type u = le_bytes 4 (rc4_alias u) /\ length (rc4_msg_type u) = 4%nat.
Proof. exact rc4_usage_alias. Qed.
Print Assumptions C05_rc4_usage_alias.

Theorem C05_rc4_msg_type_injective : forall u1 u2,
  0 <= u1 < 2 ^ 32 -> 0 <= u2 < 2 ^ 32 ->
  (rc4_msg_type u1 = rc4_msg_type u2 <-> rc4_alias u1 = rc4_alias u2).
Proof. exact rc4_msg_type_injective. Qed.
Print Assumptions C05_rc4_msg_type_injective.

(* ---- round trip: whatever the RFC model encrypts it decrypts to the same plaintext ----
   No hypothesis on the ciphers: AES and triple-DES decryption are proved inverse to encryption
   (prim/AESInverse.v, prim/DESInverse.v), RC4 is an involution; premises say keys and data are bytes. *)
Theorem C05_cts_roundtrip : forall (enc dec : bytes -> bytes),
  (forall b, length b = 16%nat -> wf_bytes b -> dec (enc b) = b) ->
  (forall b, length b = 16%nat -> length (enc b) = 16%nat) ->
  (forall b, length b = 16%nat -> wf_bytes b -> wf_bytes (enc b)) ->
  forall d, (16 <= length d)%nat -> wf_bytes d -> cts_decrypt dec (cts_encrypt enc d) = Ok d.
Proof. exact cts_roundtrip. Qed.
Print Assumptions C05_cts_roundtrip.

Theorem C05_aes_block_inverse : forall key blk,
  wf_bytes key -> length blk = 16%nat -> wf_bytes blk -> aes_ecb_dec key (aes_ecb key blk) = blk.
Proof. intros key blk Hk. exact (CryptoWf.aes_ecb_inverse key Hk blk). Qed.
Print Assumptions C05_aes_block_inverse.

Theorem C05_des3_block_inverse : forall key blk,
  length blk = 8%nat -> wf_bytes blk -> des3_ecb_dec key (des3_ecb key blk) = blk.
Proof. exact des3_inv. Qed.
Print Assumptions C05_des3_block_inverse.

Theorem C05_aes_sha1_roundtrip : forall et key usage conf msg ct,
  et_family et = Some FAesSha1 -> length conf = 16%nat ->
  wf_bytes key -> wf_bytes conf -> wf_bytes msg ->
  encrypt_with et key usage conf msg = Ok ct -> decrypt et key usage ct = Ok msg.
Proof. exact aes_sha1_roundtrip. Qed.
Print Assumptions C05_aes_sha1_roundtrip.

Theorem C05_aes_sha2_roundtrip : forall et key usage conf msg ct,
  et_family et = Some FAesSha2 -> length conf = 16%nat ->
  wf_bytes key -> wf_bytes conf -> wf_bytes msg ->
  encrypt_with et key usage conf msg = Ok ct -> decrypt et key usage ct = Ok msg.
Proof. exact aes_sha2_roundtrip. Qed.
Print Assumptions C05_aes_sha2_roundtrip.

(* des3: "up to the zero padding RFC 3961 prescribes" *)
Theorem C05_des3_roundtrip : forall key usage conf msg ct,
  length conf = 8%nat -> wf_bytes conf -> wf_bytes msg ->
  encrypt_with 16 key usage conf msg = Ok ct ->
  decrypt 16 key usage ct = Ok (msg ++ zeros ((8 - length (conf ++ msg) mod 8) mod 8)).
Proof. exact des3_roundtrip. Qed.
Print Assumptions C05_des3_roundtrip.

Theorem C05_rc4_roundtrip : forall key usage conf msg ct,
  length conf = 8%nat -> length key = 16%nat ->
  encrypt_with 23 key usage conf msg = Ok ct -> decrypt 23 key usage ct = Ok msg.
Proof. exact rc4_roundtrip. Qed.
Print Assumptions C05_rc4_roundtrip.

(* the premises are satisfiable: encryption of a byte string under a byte-string key succeeds *)
Example C05_roundtrip_nonvacuous :
  match encrypt_with 17 (repeatz 7 16) 2 (repeatz 1 16) [104;105] with
  | Ok ct => decrypt 17 (repeatz 7 16) 2 ct = Ok [104;105]
  | _ => False
  end.
Proof. vm_compute. reflexivity. Qed.

(* ciphertext lengths a peer can rely on *)
Theorem C05_aes_ciphertext_length : forall et key usage conf msg ct,
  (et_family et = Some FAesSha1 \/ et_family et = Some FAesSha2) -> length conf = 16%nat ->
  encrypt_with et key usage conf msg = Ok ct -> length ct = (16 + length msg + mac_len et)%nat.
Proof. exact aes_ciphertext_length. Qed.
Print Assumptions C05_aes_ciphertext_length.

Theorem C05_rc4_ciphertext_length : forall key usage conf msg ct,
  encrypt_with 23 key usage conf msg = Ok ct -> length ct = (16 + length conf + length msg)%nat.
Proof. exact rc4_ciphertext_length. Qed.
Print Assumptions C05_rc4_ciphertext_length.

Theorem C05_des3_ciphertext_length : forall key usage conf msg ct,
  encrypt_with 16 key usage conf msg = Ok ct ->
  length ct = (length (conf ++ msg) + (8 - length (conf ++ msg) mod 8) mod 8 + 20)%nat.
Proof. exact des3_ciphertext_length. Qed.
Print Assumptions C05_des3_ciphertext_length.
