(* C03 — SPNEGO HTTP wrapper serves the inner handler only to authenticated requests. *)
From Gokrb5.lib Require Import Bytes JV.
From Gokrb5.model Require Import APReq Spnego.
From Gokrb5.proofs Require Import SpnegoProofs.

(* The wrapped handler runs only for a request of an established authenticated session or one that carries
   a token containing an AP-REQ the service accepts; the identity in the context is the accepted one. *)
Theorem C03_handler_only_if_authenticated : forall s h id,
  r_inner (serve s h) = Some id ->
  s = Session id true \/ (exists t, h = HToken t /\ carried t = Some (MTAPReq (Some id))).
Proof. exact handler_only_if_authenticated. Qed.
Print Assumptions C03_handler_only_if_authenticated.

(* Every other request gets 401 with a WWW-Authenticate: Negotiate challenge, or 5xx exactly when the
   application's session store fails after a successful authentication, and never reaches the handler. *)
Theorem C03_otherwise_refused : forall s h,
  r_inner (serve s h) = None ->
  (r_status (serve s h) = 401 /\ r_challenge (serve s h) <> CNone /\ r_challenge (serve s h) <> CAcceptCompleted) \/
  (r_status (serve s h) = 500 /\ s = NoSession true /\
   exists t id, h = HToken t /\ accept_sec_context t = (Some id, SComplete)).
Proof. exact otherwise_refused. Qed.
Print Assumptions C03_otherwise_refused.

(* No token-verification API reports success for a token that does not contain an accepted AP-REQ. *)
Theorem C03_no_verify_api_accepts_non_apreq : forall t id s,
  accept_sec_context t = (Some id, s) -> carried t = Some (MTAPReq (Some id)) /\ s = SComplete.
Proof. exact no_verify_api_accepts_non_apreq. Qed.
Print Assumptions C03_no_verify_api_accepts_non_apreq.

Theorem C03_init_verify_accepts_only_apreq : forall mechs tok id s,
  init_verify mechs tok = (Some id, s) -> tok = Some (MTAPReq (Some id)).
Proof. exact init_verify_accepts_only_apreq. Qed.
Print Assumptions C03_init_verify_accepts_only_apreq.

Theorem C03_resp_verify_accepts_only_apreq : forall mech tok id s,
  resp_verify mech tok = (Some id, s) -> tok = Some (MTAPReq (Some id)).
Proof. exact resp_verify_accepts_only_apreq. Qed.
Print Assumptions C03_resp_verify_accepts_only_apreq.

(* For every sequence of requests: whoever is served at step n presented, at some step m <= n, a token
   containing an accepted AP-REQ for that identity (session established by it, or the request itself). *)
Theorem C03_sequence_handler_only_if_authenticated : forall hs s,
  (match s with Session _ _ => False | _ => True end) ->
  forall n resp id, nth_error (serve_seq s hs) n = Some resp -> r_inner resp = Some id ->
  exists m t, (m <= n)%nat /\ nth_error hs m = Some (HToken t) /\ carried t = Some (MTAPReq (Some id)).
Proof. exact sequence_handler_only_if_authenticated. Qed.
Print Assumptions C03_sequence_handler_only_if_authenticated.
