(* C08, second layer — the weak-key correction clause of random-to-key (RFC 3961 6.3.1). *)
From Gokrb5.lib Require Import Bytes JV.
From Gokrb5.model Require Import Crypto.
From Gokrb5.proofs Require Import CryptoKeys CryptoWeak.

(* For every seed of at least 21 octets, the des3 key produced splits into three 8-octet DES keys none of which
   is one of the sixteen weak or semi-weak keys: the correction (last octet XOR 0xF0) never lands on another
   entry of the table. *)
Theorem C08_des3_no_weak_part : forall b, (21 <= length b)%nat ->
  exists k1 k2 k3, des3_random_to_key b = k1 ++ k2 ++ k3 /\
    length k1 = 8%nat /\ length k2 = 8%nat /\ length k3 = 8%nat /\
    des_weak k1 = false /\ des_weak k2 = false /\ des_weak k3 = false.
Proof. exact des3_random_to_key_no_weak_part. Qed.
Print Assumptions C08_des3_no_weak_part.

Theorem C08_fix_weak_not_weak : forall k, des_weak (fix_weak k) = false.
Proof. exact fix_weak_not_weak. Qed.
Print Assumptions C08_fix_weak_not_weak.

(* the correction touches nothing else: keys that are not weak are unchanged, weak ones change in the last octet *)
Theorem C08_fix_weak_id : forall k, des_weak k = false -> fix_weak k = k.
Proof. exact fix_weak_id. Qed.
Print Assumptions C08_fix_weak_id.

Theorem C08_fix_weak_changes_last : forall k, des_weak k = true ->
  fix_weak k = firstn 7 k ++ [Z.lxor (nth 7 k 0) 240].
Proof. exact fix_weak_changes_last. Qed.
Print Assumptions C08_fix_weak_changes_last.

(* non-vacuity: a seed whose first 7 octets expand to the semi-weak key FEE0FEE0FEF1FEF1 (the one a
   mistranscribed table would miss): the part comes out with its last octet corrected to 01 *)
Example C08b_semi_weak_seed :
  des_weak [254;224;254;224;254;241;254;241] = true /\
  firstn 8 (des3_random_to_key ([254;224;254;225;255;241;255] ++ repeat 0 14)) = [254;224;254;224;254;241;254;1].
Proof. vm_compute. split; reflexivity. Qed.
