(* C09 (bytes mode) — Client accepts a KDC reply only if it answers the request it sent: the model consumes the
   reply as WIRE BYTES (model/KDCRepBytes.v: Go-faithful lenient ASN.1 decoding, msg-type test, ticket, then the
   acceptance functions of C09 with the DER decoder of the decrypted part). *)
From Gokrb5.lib Require Import Bytes JV.
From Gokrb5.model Require Import Keytab Crypto PAData Replay APReq KDCRep Schema DER DERCodec RFCSchemas KDCRepBytes.
From Gokrb5.proofs Require Import KDCRepProofs KDCRepBytesDec KDCRepBytesProofs.

(* The lenient decoder reads back the DER encoding (C13's encoder) of every well-formed value of every Go type
   description, under its APPLICATION tag, whatever follows it. *)
Theorem C09_go_unmarshal_app_encode : forall n g v trailing,
  0 <= n < 31 -> gok g = true -> is_raw g = false ->
  wf_val (erase g) v = true -> gowf g v = true -> zlen (enc (TApp n (erase g)) v) < 2 ^ 31 ->
  go_unmarshal_app n g (enc (TApp n (erase g)) v ++ trailing) = Some v.
Proof. exact go_unmarshal_app_encode. Qed.
Print Assumptions C09_go_unmarshal_app_encode.

(* (a) the decoder of the decrypted part reads back the sealed fields: APPLICATION 25 or 26, any trailing octets *)
Theorem C09_dec_enc_der_inject : forall n x er b pad,
  n = 25 \/ n = 26 -> wf_enc_inj n x er = true ->
  encode (TApp n rfc_EncKDCRepPart) (inject_enc_rep x er) = Some b ->
  dec_enc_der (b ++ pad) = Some er.
Proof. exact dec_enc_der_inject. Qed.
Print Assumptions C09_dec_enc_der_inject.

(* (a) the wire encoding of a well-formed reply value parses to its cleartext projection, which always exists *)
Theorem C09_parse_kdc_rep_encode : forall app v w trailing,
  0 <= app < 31 -> wf_rep_val app v = true -> encode (TApp app rfc_KDCRep) v = Some w ->
  parse_kdc_rep app (w ++ trailing) = project_rep v.
Proof. exact parse_kdc_rep_encode. Qed.
Print Assumptions C09_parse_kdc_rep_encode.

Theorem C09_project_rep_total : forall v, wf_val rfc_KDCRep v = true -> exists rp, project_rep v = Some rp.
Proof. exact project_rep_total. Qed.
Print Assumptions C09_project_rep_total.

(* (a) REFINEMENT: on the encoding of a well-formed reply whose encrypted part decrypts to the encoding of er, the
   verdict from the bytes is the verdict of the sealed-content model of C09 *)
Theorem C09_asrep_bytes_refines : forall skew c rq v w trailing rp er t,
  wf_rep_val 11 v = true -> encode rfc_ASRep v = Some w -> project_rep v = Some rp ->
  (forall kv kt pt, as_key c rp = Ok (kv, kt) -> decrypt kt kv 3 (rp_cipher rp) = Ok pt -> seals er pt) ->
  asrep_verify_bytes skew c rq (w ++ trailing) t = asrep_verify (fun _ => Some er) skew c rq rp t.
Proof. exact asrep_bytes_refines_sealed. Qed.
Print Assumptions C09_asrep_bytes_refines.

Theorem C09_tgsrep_bytes_refines : forall skew stype skey rq v w trailing rp er t,
  wf_rep_val 13 v = true -> encode rfc_TGSRep v = Some w -> project_rep v = Some rp ->
  (forall pt, decrypt stype skey 8 (rp_cipher rp) = Ok pt -> seals er pt) ->
  tgsrep_verify_bytes skew stype skey rq (w ++ trailing) t = tgsrep_verify (fun _ => Some er) skew stype skey rq rp t.
Proof. exact tgsrep_bytes_refines_sealed. Qed.
Print Assumptions C09_tgsrep_bytes_refines.

(* (b) the unsealed fields that matter: AS = cname, crealm, enc-part etype / kvno / cipher, padata hints;
   TGS = cname, ticket realm, enc-part cipher *)
Theorem C09_asrep_bytes_unsealed_fields : forall skew c rq w1 w2 r1 r2 t,
  parse_asrep w1 = Some r1 -> parse_asrep w2 = Some r2 -> as_relevant r1 = as_relevant r2 ->
  asrep_verify_bytes skew c rq w1 t = asrep_verify_bytes skew c rq w2 t.
Proof. exact asrep_bytes_unsealed_fields. Qed.
Print Assumptions C09_asrep_bytes_unsealed_fields.

Theorem C09_tgsrep_bytes_unsealed_fields : forall skew stype skey rq w1 w2 r1 r2 t,
  parse_tgsrep w1 = Some r1 -> parse_tgsrep w2 = Some r2 -> tgs_relevant r1 = tgs_relevant r2 ->
  tgsrep_verify_bytes skew stype skey rq w1 t = tgsrep_verify_bytes skew stype skey rq w2 t.
Proof. exact tgsrep_bytes_unsealed_fields. Qed.
Print Assumptions C09_tgsrep_bytes_unsealed_fields.

Theorem C09_asrep_ignores_pvno_and_ticket : forall skew c rq v1 v2 w1 w2 tr1 tr2 t,
  as_same_checked v1 v2 ->
  wf_rep_val 11 v1 = true -> wf_rep_val 11 v2 = true ->
  encode rfc_ASRep v1 = Some w1 -> encode rfc_ASRep v2 = Some w2 ->
  asrep_verify_bytes skew c rq (w1 ++ tr1) t = asrep_verify_bytes skew c rq (w2 ++ tr2) t.
Proof. exact asrep_ignores_pvno_and_ticket. Qed.
Print Assumptions C09_asrep_ignores_pvno_and_ticket.

Theorem C09_tgsrep_ignores_unchecked_fields : forall skew stype skey rq v1 v2 w1 w2 tr1 tr2 t,
  tgs_same_checked v1 v2 ->
  wf_rep_val 13 v1 = true -> wf_rep_val 13 v2 = true ->
  encode rfc_TGSRep v1 = Some w1 -> encode rfc_TGSRep v2 = Some w2 ->
  tgsrep_verify_bytes skew stype skey rq (w1 ++ tr1) t = tgsrep_verify_bytes skew stype skey rq (w2 ++ tr2) t.
Proof. exact tgsrep_ignores_unchecked_fields. Qed.
Print Assumptions C09_tgsrep_ignores_unchecked_fields.

(* (c) parse failure never accepts; acceptance from bytes is C09's validity of the parsed reply *)
Theorem C09_asrep_bytes_parse_failure : forall skew c rq w t,
  parse_asrep w = None -> asrep_verify_bytes skew c rq w t = Ok false.
Proof. exact asrep_bytes_parse_failure. Qed.
Print Assumptions C09_asrep_bytes_parse_failure.

Theorem C09_tgsrep_bytes_parse_failure : forall skew stype skey rq w t,
  parse_tgsrep w = None -> tgsrep_verify_bytes skew stype skey rq w t = Ok false.
Proof. exact tgsrep_bytes_parse_failure. Qed.
Print Assumptions C09_tgsrep_bytes_parse_failure.

Theorem C09_asrep_bytes_accept_iff : forall skew c rq w t,
  asrep_verify_bytes skew c rq w t = Ok true <->
  exists rp, parse_asrep w = Some rp /\ as_valid dec_enc_der skew c rq rp t.
Proof. exact asrep_bytes_accept_iff. Qed.
Print Assumptions C09_asrep_bytes_accept_iff.

Theorem C09_tgsrep_bytes_accept_iff : forall skew stype skey rq w t,
  tgsrep_verify_bytes skew stype skey rq w t = Ok true <->
  exists rp, parse_tgsrep w = Some rp /\ tgs_valid dec_enc_der skew stype skey rq rp t.
Proof. exact tgsrep_bytes_accept_iff. Qed.
Print Assumptions C09_tgsrep_bytes_accept_iff.

(* (c) the encoding of any message under another APPLICATION tag (the other kind of reply, KRB-ERROR, ...) is rejected *)
Theorem C09_asrep_rejects_other_application : forall skew c rq m t' v w trailing t,
  0 <= m < 31 -> m <> 11 -> encode (TApp m t') v = Some w -> zlen w < 2 ^ 31 ->
  asrep_verify_bytes skew c rq (w ++ trailing) t = Ok false.
Proof. exact asrep_rejects_other_application. Qed.
Print Assumptions C09_asrep_rejects_other_application.

Theorem C09_tgsrep_rejects_other_application : forall skew stype skey rq m t' v w trailing t,
  0 <= m < 31 -> m <> 13 -> encode (TApp m t') v = Some w -> zlen w < 2 ^ 31 ->
  tgsrep_verify_bytes skew stype skey rq (w ++ trailing) t = Ok false.
Proof. exact tgsrep_rejects_other_application. Qed.
Print Assumptions C09_tgsrep_rejects_other_application.

(* (c) a well-formed reply whose msg-type is not the one of the exchange does not parse *)
Theorem C09_parse_kdc_rep_msg_type : forall app v w trailing,
  0 <= app < 31 ->
  wf_val rfc_KDCRep v = true -> gowf g_KDCRep v = true -> zlen (enc (TApp app rfc_KDCRep) v) < 2 ^ 31 ->
  v_msg_type v <> Some app ->
  encode (TApp app rfc_KDCRep) v = Some w -> parse_kdc_rep app (w ++ trailing) = None.
Proof. exact parse_kdc_rep_msg_type. Qed.
Print Assumptions C09_parse_kdc_rep_msg_type.
