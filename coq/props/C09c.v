(* C09 (completeness, end to end) — a reply honestly built by a KDC for the request the client sent is ACCEPTED:
   from the wire bytes (model/KDCRepBytes.v), through the real cipher model (model/Crypto.v: the encrypted part
   is what encrypt_with produces, with some confounder, on the DER encoding of the EncKDCRepPart), to the
   verdict.  Conditions on the reply are those of C09's as_valid / tgs_valid. *)
From Gokrb5.lib Require Import Bytes JV.
From Gokrb5.model Require Import Keytab Crypto PAData Replay APReq KDCRep Schema DER DERCodec RFCSchemas KDCRepBytes.
From Gokrb5.proofs Require Import KDCRepProofs KDCRepBytesDec KDCRepBytesProofs KDCRepHonest.

(* decryption of what encrypt_with sealed (any confounder of the etype's length) returns the message followed by
   the zero padding of the etype: none, except des3-cbc (kpad_len) *)
Theorem C09_ksealed_decrypt : forall et key usage msg ct,
  kkey_ok et key -> wf_bytes msg -> ksealed et key usage msg ct ->
  decrypt et key usage ct = Ok (msg ++ Crypto.zeros (kpad_len et msg)).
Proof. exact ksealed_decrypt. Qed.
Print Assumptions C09_ksealed_decrypt.

Theorem C09_honest_asrep_accepted : forall skew c rq v w trailing rp t n x er ept kv kt,
  wf_rep_val 11 v = true -> encode rfc_ASRep v = Some w -> project_rep v = Some rp ->
  (n = 25 \/ n = 26) -> wf_enc_inj n x er = true ->
  encode (TApp n rfc_EncKDCRepPart) (inject_enc_rep x er) = Some ept ->
  as_key c rp = Ok (kv, kt) -> kkey_ok kt kv -> ksealed kt kv 3 ept (rp_cipher rp) ->
  rp_cname rp = rq_cname rq -> rp_crealm rp = rq_realm rq ->
  er_nonce er = rq_nonce rq -> er_sname er = rq_sname rq -> er_srealm er = rq_realm rq ->
  (rq_addrs rq = [] \/ addrs_equal (er_caddr er) (rq_addrs rq) = true) ->
  Z.abs (t - us (er_authtime er)) <= skew ->
  flag_enc_pa_rep (er_flags er) = false ->
  asrep_verify_bytes skew c rq (w ++ trailing) t = Ok true.
Proof. exact honest_asrep_accepted. Qed.
Print Assumptions C09_honest_asrep_accepted.

Theorem C09_honest_tgsrep_accepted : forall skew stype skey rq v w trailing rp t n x er ept,
  wf_rep_val 13 v = true -> encode rfc_TGSRep v = Some w -> project_rep v = Some rp ->
  (n = 25 \/ n = 26) -> wf_enc_inj n x er = true ->
  encode (TApp n rfc_EncKDCRepPart) (inject_enc_rep x er) = Some ept ->
  kkey_ok stype skey -> ksealed stype skey 8 ept (rp_cipher rp) ->
  rp_cname rp = rq_cname rq -> rp_tkt_realm rp = rq_realm rq ->
  er_nonce er = rq_nonce rq -> er_srealm er = rq_realm rq ->
  (forall a, In a (er_caddr er) -> In a (rq_addrs rq)) ->
  ((exists s, er_start er = Some s /\ Z.abs (t - us s) <= skew) \/ Z.abs (t - us (er_authtime er)) <= skew) ->
  tgsrep_verify_bytes skew stype skey rq (w ++ trailing) t = Ok true.
Proof. exact honest_tgsrep_accepted. Qed.
Print Assumptions C09_honest_tgsrep_accepted.
