(* C11 — A client and its configuration can be shared by goroutines safely. *)
From Coq Require Import String List Bool.
From Gokrb5.lib Require Import Bytes JV.
From Gokrb5.model Require Import LockModel ClientSM Hosts.
From Gokrb5.model Require Import LockOrder.
From Gokrb5.proofs Require Import LockProofs LockOrderProofs LockOrderSound ClientSMProofs HostsProofs.

(* Soundness of the lockset checker that is run on the access model generated from /repo's source on every run
   (coq/gen/Access.v, coq/conform/ConfAccess.v): under the mutual-exclusion semantics of sync.RWMutex two
   threads are never simultaneously at conflicting accesses, except on the listed fields. *)
Theorem C11_race_free_sound : forall (thread : Type) (holds : thread -> string -> option bool)
    except accs t1 t2 a b,
  race_free_except except accs = true ->
  rwmutex_invariant thread holds -> t1 <> t2 -> In a accs -> In b accs ->
  conflict a b = true -> at_access thread holds t1 a -> at_access thread holds t2 b ->
  mem (a_field a) except = true.
Proof. exact race_free_sound. Qed.
Print Assumptions C11_race_free_sound.

(* Every (ticket, key) pair handed out was issued together: tickets are identified with their keys in the
   issue log, and every returned ticket is in the log for the SPN asked for (atomic cache steps). *)
Theorem C11_pair_from_log : forall ops s,
  cache_from_log s ->
  forall o a s', In (o, Some a, s') (cstates s ops) ->
  exists spn now, o = Get spn now /\ In (tid_of a, spn) (k_log (cs_kdc s')).
Proof. exact service_ticket_from_log. Qed.
Print Assumptions C11_pair_from_log.

(* Resolving KDC addresses neither modifies the configuration (the second component returned is the unchanged
   server list) nor returns anything but a permutation of the configured servers, for every random choice. *)
Theorem C11_rand_serv_order_perm : forall (servers : list bytes) (oracle : list Z),
  servers <> [] ->
  exists vals, rand_serv_order servers oracle = Ok (vals, servers) /\
               Permutation.Permutation vals servers /\
               map fst (numbered 1 vals) = map (fun k => 1 + Z.of_nat k) (seq 0 (length servers)) /\
               map snd (numbered 1 vals) = vals.
Proof. exact rand_serv_order_perm. Qed.
Print Assumptions C11_rand_serv_order_perm.

(* Deadlock freedom from the lock ranking that the generated obligation conform/ConfLockOrder.v establishes for
   every acquisition site of client, config and service (direct or through calls): when every thread waits only
   for a lock ranked strictly above all it holds, no set of threads can wait for each other — whatever the
   schedule, the number of threads and the locks' modes. *)
Theorem C11_ordered_no_deadlock : forall (lock : Type) (rank : lock -> nat) (S : list (thread lock)),
  Forall (ordered lock rank) S -> ~ deadlocked lock S.
Proof. exact ordered_no_deadlock. Qed.
Print Assumptions C11_ordered_no_deadlock.

Theorem C11_ordered_no_reentry : forall (lock : Type) (rank : lock -> nat) (t : thread lock) w,
  ordered lock rank t -> waiting lock t = Some w -> ~ In w (held lock t).
Proof. exact ordered_no_reentry. Qed.
Print Assumptions C11_ordered_no_reentry.

(* Soundness of the lock-order checker run on the lock events generated from /repo's source (coq/gen/LockEvents.v,
   coq/conform/ConfLockOrder.v): when it accepts, every lock acquired while another is held ALONG ANY CHAIN OF CALLS
   is ranked strictly above it, and no blocking channel operation is reached under a lock. *)
Theorem C11_lock_order_check_sound : forall ranks evs,
  lock_order_sound_check ranks evs = true ->
  forall h l, nested evs h l ->
  exists rh rl, rank_of ranks h = Some rh /\ rank_of ranks l = Some rl /\ (rh < rl)%nat.
Proof. exact lock_order_check_sound. Qed.
Print Assumptions C11_lock_order_check_sound.

Theorem C11_no_block_check_sound : forall evs, no_block_sound_check evs = true -> ~ blocks_under_lock evs.
Proof. exact no_block_check_sound. Qed.
Print Assumptions C11_no_block_check_sound.
