(* C15 — Credential cache files of every format version parse to what was written.
   This file holds only the property theorems; each is closed by `exact` of a lemma proved in proofs/.
   The model (model/CCache.v) is the REPAIRED reader: agentwork/c15/fix-1 (bounds checks, error instead
   of panic), fix-2 (unknown header tags kept), fix-3 (ticket flags in the byte order of the file). *)
From Gokrb5.lib Require Import Bytes JV.
From Gokrb5.model Require Import CCache.
From Gokrb5.proofs Require Import CCacheParse CCacheLookup CCacheTotal.

(* Every well-formed cache file — format versions 1, 2, 3 and 4; any header fields (version 4), any
   number of credentials, name components, addresses, authorization-data and configuration entries, every
   field inside the range of its file representation — parses to exactly the cache that was written:
   default principal and every credential with its names, realms, key, times, is_skey, flags, addresses,
   authorization data, ticket and second ticket.  `render` is the grammar of the MIT format document. *)
Theorem C15_cc_parse_grammar : forall m, wf_cc m -> cc_unmarshal (render m) = Ok m.
Proof. exact cc_parse_grammar. Qed.
Print Assumptions C15_cc_parse_grammar.

(* GetEntry returns the first credential whose server name equals the request, none otherwise. *)
Theorem C15_get_entry_spec : forall cs name,
  match get_entry cs name with
  | Some c => exists pre post, cs = pre ++ c :: post /\ sname c = name /\
                               Forall (fun c' => sname c' <> name) pre
  | None => forall c, In c cs -> sname c <> name
  end.
Proof. exact get_entry_spec. Qed.
Print Assumptions C15_get_entry_spec.

(* Contains is true exactly when some credential has that server name. *)
Theorem C15_contains_spec : forall cs name,
  contains cs name = true <-> exists c, In c cs /\ sname c = name.
Proof. exact contains_spec. Qed.
Print Assumptions C15_contains_spec.

(* GetEntries keeps, in order, exactly the credentials whose server realm does not start with
   "X-CACHECONF". *)
Theorem C15_get_entries_filters_conf : forall cs,
  (forall c, In c (get_entries cs) <-> In c cs /\ ~ conf_realm c) /\
  (forall a b, get_entries (a ++ b) = get_entries a ++ get_entries b) /\
  (forall c, get_entries [c] = if is_conf c then [] else [c]).
Proof. exact get_entries_filters_conf. Qed.
Print Assumptions C15_get_entries_filters_conf.

(* A client built from the cache holds exactly those tickets and keys (ticket decoding is an oracle
   input `dec`: per credential the service name of the decoded ticket, or nothing). *)
Theorem C15_client_from_ccache_holds_exactly : forall cc dec st,
  client_from_ccache cc dec = Ok st ->
  (exists pre post spn,
      cc_creds cc = pre ++ cs_session st :: post /\
      sname (cs_session st) = [krbtgt; cp_realm (cc_princ cc)] /\
      Forall (fun c' => sname c' <> [krbtgt; cp_realm (cc_princ cc)]) pre /\
      nth_error dec (length pre) = Some (Some spn)) /\
  map (fun '(s, c) => (c, Some s)) (cs_cache st)
    = filter (fun '(c, _) => negb (is_conf c)) (combine (cc_creds cc) dec).
Proof. exact client_from_ccache_holds_exactly. Qed.
Print Assumptions C15_client_from_ccache_holds_exactly.

Theorem C15_client_cache_lookup : forall es spn,
  match cache_lookup es spn None with
  | Some c => exists pre post, es = pre ++ (spn, c) :: post /\ Forall (fun e => fst e <> spn) post
  | None => Forall (fun e => fst e <> spn) es
  end.
Proof. exact cache_lookup_spec. Qed.
Print Assumptions C15_client_cache_lookup.

Theorem C15_client_from_ccache_rejects : forall cc dec,
  length dec = length (cc_creds cc) ->
  ((forall c, In c (cc_creds cc) -> sname c <> [krbtgt; cp_realm (cc_princ cc)]) \/
   (exists c, In (c, None) (combine (cc_creds cc) dec) /\ is_conf c = false)) ->
  exists e, client_from_ccache cc dec = Err e.
Proof. exact client_from_ccache_rejects. Qed.
Print Assumptions C15_client_from_ccache_rejects.

(* The (repaired) parser neither panics nor loops on any byte string, and what it returns is bounded by
   the input (a counted list of n entries consumed at least 4 + 6 n bytes). *)
Theorem C15_cc_unmarshal_total : forall b, cc_fine (cc_unmarshal b).
Proof. exact cc_unmarshal_total. Qed.
Print Assumptions C15_cc_unmarshal_total.

Theorem C15_counted_alloc_bounded : forall le r l r',
  rd_counted le r = Ok (l, r') -> (length r' + 4 + 6 * length l <= length r)%nat.
Proof. exact rd_counted_bounded. Qed.
Print Assumptions C15_counted_alloc_bounded.
