(* C20 — Keys and passwords never leak into diagnostics, errors, logs or encodings. *)
From Gokrb5.lib Require Import Bytes JV.
From Gokrb5.model Require Import Diag.
From Gokrb5.proofs Require Import DiagProofs.

(* Noninterference of every encoding that shows only visible fields: if the checker finds no secret behind a
   visible field, two states that differ only in secrets and hidden fields encode identically - hence no
   function of the secret (raw, hex, base64, ...) can appear.  The type descriptions this is applied to are
   regenerated from /repo's source on every run (coq/gen/DiagTypes.v) and checked in coq/conform/ConfDiag.v. *)
Theorem C20_render_noninterference : forall t a b,
  no_secret_visible t = true -> same_public t a b -> render t a = render t b.
Proof. exact render_noninterference. Qed.
Print Assumptions C20_render_noninterference.
