(* C07 — Keyed checksums equal the RFC definitions and verify only exact matches.
   `checksum` (model/Crypto.v) IS the RFC definition (written from RFC 3961 5.3/6.3, 3962, 8009, 4757 on
   Gallina primitives validated by published vectors); equality with gokrb5's GetChecksumHash is the
   correspondence stream.  The theorems characterise verification exactly. *)
From Gokrb5.lib Require Import Bytes JV.
From Gokrb5.model Require Import Crypto.
From Gokrb5.proofs Require Import CryptoBasic.

Theorem C07_verify_iff : forall et key usage data chk,
  verify_checksum et key usage data chk = true <-> checksum et key usage data = Ok chk.
Proof. exact verify_checksum_iff. Qed.
Print Assumptions C07_verify_iff.

Theorem C07_checksum_length : forall et key usage data c,
  checksum et key usage data = Ok c -> length c = mac_len et.
Proof. exact checksum_length. Qed.
Print Assumptions C07_checksum_length.

(* no proper prefix and no extension of the right value verifies *)
Theorem C07_verify_exact_length : forall et key usage data chk,
  verify_checksum et key usage data chk = true -> length chk = mac_len et.
Proof. exact verify_checksum_exact_length. Qed.
Print Assumptions C07_verify_exact_length.

Theorem C07_chksum_etype_matches_iana :
  forallb (fun '(ct, et) => match etype_of_chksum_type ct with Some e => e =? et | None => false end
                            && (chksum_type_of_etype et =? ct)) iana_chksum_etype = true.
Proof. exact chksum_etype_matches_iana. Qed.
Print Assumptions C07_chksum_etype_matches_iana.

Theorem C07_chksum_etype_only_iana : forall ct et,
  etype_of_chksum_type ct = Some et -> In (ct, et) iana_chksum_etype.
Proof. exact chksum_etype_only_iana. Qed.
Print Assumptions C07_chksum_etype_only_iana.

(* RFC 4757: distinct message types for distinct non-aliased usages over the whole 32-bit range *)
Theorem C07_rc4_msg_type_injective : forall u1 u2,
  0 <= u1 < 2 ^ 32 -> 0 <= u2 < 2 ^ 32 ->
  (rc4_msg_type u1 = rc4_msg_type u2 <-> rc4_alias u1 = rc4_alias u2).
Proof. exact rc4_msg_type_injective. Qed.
Print Assumptions C07_rc4_msg_type_injective.
