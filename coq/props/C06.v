(* C06 — Decryption returns plaintext only for authentic ciphertexts (first layer: error handling).
   The acceptance-set characterisation lives in proofs/CryptoAccept.v once proved; until then the
   statement "only images of encryption are accepted" is exercised exhaustively by the harness
   (every single-bit flip, truncation, extension, usage and key) and labelled partial in the evidence. *)
From Gokrb5.lib Require Import Bytes JV.
From Gokrb5.model Require Import Crypto.
From Gokrb5.proofs Require Import CryptoBasic.

Theorem C06_decrypt_short_is_error : forall et key usage ct,
  (length ct < conf_len et + mac_len et)%nat -> exists e, decrypt et key usage ct = Err e.
Proof. exact decrypt_short_is_error. Qed.
Print Assumptions C06_decrypt_short_is_error.

Theorem C06_decrypt_never_panics : forall et key usage ct, is_panic (decrypt et key usage ct) = false.
Proof. exact decrypt_never_panics. Qed.
Print Assumptions C06_decrypt_never_panics.
