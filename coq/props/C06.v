(* C06 — Decryption returns plaintext only for authentic ciphertexts (first layer: error handling).
   The acceptance set is characterised in proofs/CryptoRoundTrip.v: plaintext is returned only when the
   trailing MAC equals the RFC integrity hash of what was decrypted; that no other byte string meets this
   is the HMAC's cryptographic strength (outside any proof) and is exercised exhaustively by the harness
   (every single-bit flip, truncation, extension, usage and key). *)
From Gokrb5.lib Require Import Bytes JV.
From Gokrb5.model Require Import Crypto.
From Gokrb5.prim Require CBC RC4 HMAC.
From Gokrb5.proofs Require Import CryptoBasic CryptoRoundTrip CryptoLengths.

Theorem C06_decrypt_short_is_error : forall et key usage ct,
  (length ct < conf_len et + mac_len et)%nat -> exists e, decrypt et key usage ct = Err e.
Proof. exact decrypt_short_is_error. Qed.
Print Assumptions C06_decrypt_short_is_error.

Theorem C06_decrypt_never_panics : forall et key usage ct, is_panic (decrypt et key usage ct) = false.
Proof. exact decrypt_never_panics. Qed.
Print Assumptions C06_decrypt_never_panics.

Theorem C06_decrypt_accepts_only_valid_mac : forall et key usage ct m,
  decrypt et key usage ct = Ok m ->
  let n := (length ct - mac_len et)%nat in
  match et_family et with
  | Some FAesSha1 => exists ke pt, derive_key et key (usage_const usage 170) = Ok ke /\
      cts_decrypt (aes_ecb_dec ke) (firstn n ct) = Ok pt /\
      integrity_hash et key usage pt = Ok (skipn n ct) /\ m = skipn 16 pt
  | Some FAesSha2 => length key = key_len et /\ exists ke pt, derive_key et key (usage_const usage 170) = Ok ke /\
      cts_decrypt (aes_ecb_dec ke) (firstn n ct) = Ok pt /\
      integrity_hash et key usage (zeros 16 ++ firstn n ct) = Ok (skipn n ct) /\ m = skipn 16 pt
  | Some FDes3 => exists ke, derive_key et key (usage_const usage 170) = Ok ke /\
      let pt := CBC.cbc_decrypt (des3_ecb_dec ke) 8 (zeros 8) (firstn n ct) in
      integrity_hash et key usage pt = Ok (skipn n ct) /\ m = skipn 8 pt
  | Some FRc4 =>
      let k2 := HMAC.hmac_md5 key (rc4_msg_type usage) in
      let pt := RC4.rc4 (HMAC.hmac_md5 k2 (firstn 16 ct)) (skipn 16 ct) in
      length key = key_len et /\ HMAC.hmac_md5 k2 pt = firstn 16 ct /\ m = skipn 8 pt
  | None => False
  end.
Proof. exact decrypt_accepts_only_valid_mac. Qed.
Print Assumptions C06_decrypt_accepts_only_valid_mac.

(* usage and key-kind separation starts at the derivation constant: injective over the whole 32-bit usage range *)
Theorem C06_usage_const_injective : forall u1 o1 u2 o2,
  0 <= u1 < 2 ^ 32 -> 0 <= u2 < 2 ^ 32 -> usage_const u1 o1 = usage_const u2 o2 -> u1 = u2 /\ o1 = o2.
Proof. exact usage_const_injective. Qed.
Print Assumptions C06_usage_const_injective.

(* a key of another size than the etype's is refused by every family (so the genuine key followed by zero bytes,
   which HMAC would treat as the same key, is not accepted) *)
Theorem C06_decrypt_wrong_key_size_is_error : forall et key usage ct,
  length key <> key_len et -> exists e, decrypt et key usage ct = Err e.
Proof. exact decrypt_wrong_key_size_is_error. Qed.
Print Assumptions C06_decrypt_wrong_key_size_is_error.
