(* C10 — Tickets obtained and cached by the client are the right ones and still valid. *)
From Gokrb5.lib Require Import Bytes JV.
From Gokrb5.model Require Import ClientSM.
From Gokrb5.proofs Require Import ClientSMProofs.

(* For every sequence of client operations: a ticket returned for an SPN is one the KDC issued for that SPN. *)
Theorem C10_service_ticket_from_log : forall ops s,
  cache_from_log s ->
  forall o a s', In (o, Some a, s') (cstates s ops) ->
  exists spn now, o = Get spn now /\ In (tid_of a, spn) (k_log (cs_kdc s')).
Proof. exact service_ticket_from_log. Qed.
Print Assumptions C10_service_ticket_from_log.

(* A ticket is served from the cache only while the current time is inside its validity period. *)
Theorem C10_cache_serves_only_valid : forall s spn now tid s',
  get_ticket s spn now = (CacheHit tid, s') ->
  exists e, In e (cs_cache s) /\ ce_spn e = spn /\ ce_tid e = tid /\ ce_start e < now < ce_end e /\ s' = s.
Proof. exact cache_serves_only_valid. Qed.
Print Assumptions C10_cache_serves_only_valid.

Theorem C10_cache_hits_valid_over_histories : forall ops s o tid s',
  In (o, Some (CacheHit tid), s') (cstates s ops) ->
  exists spn now start end_, o = Get spn now /\ start < now < end_.
Proof. exact cache_hits_valid_over_histories. Qed.
Print Assumptions C10_cache_hits_valid_over_histories.

(* Referral chains are followed only up to a fixed bound: at most 7 TGS requests per call, whatever the KDCs answer. *)
Theorem C10_referrals_bounded : forall refers, (snd (tgs_exchange 64 refers 0 0) <= 7)%nat.
Proof. exact referrals_bounded. Qed.
Print Assumptions C10_referrals_bounded.

(* The AS-REQ carries the configured lifetimes, options and encryption types. *)
Theorem C10_asreq_fields : forall c now,
  f_till (new_as_req c now) = now + c_ticket_life c /\
  f_rtime (new_as_req c now) = (if c_renew_life c =? 0 then None else Some (now + c_renew_life c)) /\
  f_etypes (new_as_req c now) = c_etypes c.
Proof. exact asreq_fields. Qed.
Print Assumptions C10_asreq_fields.

Theorem C10_asreq_flags : forall c now f,
  In f (f_flags (new_as_req c now)) <->
  In f (c_default_opts c) \/ (f = 1 /\ c_forwardable c = true) \/ (f = 15 /\ c_canonicalize c = true) \/
  (f = 3 /\ c_proxiable c = true) \/ (f = 8 /\ c_renew_life c <> 0).
Proof. exact asreq_flags. Qed.
Print Assumptions C10_asreq_flags.
