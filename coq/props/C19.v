(* C19 — A PAC is accepted only with a valid server signature and is reported faithfully.
   This file holds only the property theorems; each is closed by `exact` of a lemma proved in proofs/.
   Model: coq/model/PAC.v (code-shaped, repaired code).  The NDR decoding of KERB_VALIDATION_INFO and of
   the optional buffers is external (rpc/v2): `dec` carries, per table entry, whether the stand-alone
   decoder of its ulType succeeded ("structure mode"); attribute faithfulness beyond PAC_CLIENT_INFO and
   the signature structures is compared with the known contents of the samples by the harness (partial). *)
From Gokrb5.lib Require Import Bytes JV.
From Gokrb5.model Require Import Crypto PAC.
From Gokrb5.proofs Require Import CryptoBasic PACTotal PACAccept PACSigned PACClientInfo.

(* Processing succeeds exactly when: header and table fit the input; every buffer lies inside the PAC; the
   first buffer of each mandatory type (KerbValidationInfo 1, ClientInfo 10, KDC signature 7, server
   signature 6) exists and decodes; the declared type of the server signature maps to an etype; and the keyed
   checksum of that etype with key usage 17 over the zeroed image equals the server signature value. *)
Theorem C19_pac_accept_iff : forall data key dec,
  (exists st, pac_process data key dec = Ok st) <->
  header_ok data /\
  Forall (bounds_ok data) (items_of data dec) /\
  (exists it, first_of 1 (items_of data dec) = Some it /\ it_ok it = true) /\
  (exists it ci, first_of 10 (items_of data dec) = Some it /\ client_info_unmarshal (buf_bytes data it) = Ok ci) /\
  (exists it sd, first_of 7 (items_of data dec) = Some it /\ sig_spec (buf_bytes data it) sd) /\
  (exists it sd et, first_of 6 (items_of data dec) = Some it /\ sig_spec (buf_bytes data it) sd /\
       etype_of_chksum_type (sint 32 (sd_type sd)) = Some et /\
       checksum et key 17 (zero_sigs data) = Ok (sd_sig sd)).
Proof. exact pac_accept_iff. Qed.
Print Assumptions C19_pac_accept_iff.

(* header and table are read from fixed positions, little endian (MS-PAC 2.3 / 2.4) *)
Theorem C19_table_layout : forall b pt,
  pac_unmarshal b = Ok pt <->
  header_ok b /\ pt = mkPac (cbuffers b) (le_val (firstn 4 (skipn 4 b))) (table_at b (Z.to_nat (cbuffers b))).
Proof. exact pac_unmarshal_iff. Qed.
Print Assumptions C19_table_layout.

(* signature buffer: type, value of the length selected by the type, optional RODC identifier; the copy
   that enters the signed image has exactly the value bytes zeroed *)
Theorem C19_signature_layout : forall lim p sd zb, zlen p <= lim ->
  sig_unmarshal lim p = Ok (sd, zb) <-> sig_spec p sd /\ zb = zeroed p.
Proof. exact sig_unmarshal_iff. Qed.
Print Assumptions C19_signature_layout.

(* the signed image agrees with the PAC at every position outside the (at most two, at most 24 byte)
   signature value fields ... *)
Theorem C19_zero_sigs_outside : forall data j,
  ~ covered (sig_fields data) j -> nth_error (zero_sigs data) j = nth_error data j.
Proof. exact zero_sigs_outside. Qed.
Print Assumptions C19_zero_sigs_outside.

Theorem C19_sig_fields_small : forall data,
  (length (sig_fields data) <= 2)%nat /\ Forall (fun r => 0 <= snd r - fst r <= 24) (sig_fields data).
Proof. exact sig_fields_small. Qed.
Print Assumptions C19_sig_fields_small.

(* ... hence two PACs with the same signature-field positions and the same signed image differ only inside
   the signature value fields: every other bit is covered by the server signature *)
Theorem C19_zero_sigs_determines_rest : forall p p',
  sig_fields p = sig_fields p' -> zero_sigs p = zero_sigs p' ->
  forall j, ~ covered (sig_fields p) j -> nth_error p j = nth_error p' j.
Proof. exact zero_sigs_determines_rest. Qed.
Print Assumptions C19_zero_sigs_determines_rest.

(* the declared type selects both the length that is cut out and the algorithm; an unknown type, and des3
   (not in the PAC length table), are rejected *)
Theorem C19_declared_type_binds : forall data key dec st,
  pac_process data key dec = Ok st ->
  exists it sd et,
    first_of 6 (items_of data dec) = Some it /\ sig_spec (buf_bytes data it) sd /\
    st_srv st = Some sd /\
    zlen (sd_sig sd) = sig_len (sd_type sd) /\
    etype_of_chksum_type (sint 32 (sd_type sd)) = Some et /\
    length (sd_sig sd) = mac_len et /\
    et <> 16 /\
    checksum et key 17 (zero_sigs data) = Ok (sd_sig sd).
Proof. exact declared_type_binds. Qed.
Print Assumptions C19_declared_type_binds.

Theorem C19_sig_len_is_mac_len : forall st et, 0 <= st < 2 ^ 32 ->
  etype_of_chksum_type (sint 32 st) = Some et -> et <> 16 -> sig_len st = Z.of_nat (mac_len et).
Proof. exact sig_len_mac_len. Qed.
Print Assumptions C19_sig_len_is_mac_len.

(* no Go panic and no allocation above the length of the PAC, for every byte string, key and decoder outcome *)
Theorem C19_pac_total : forall data key dec, wf_bytes data -> is_panic (pac_process data key dec) = false.
Proof. exact pac_total. Qed.
Print Assumptions C19_pac_total.

Theorem C19_table_alloc_bounded : forall data pt,
  pac_unmarshal data = Ok pt ->
  16 * pt_cbuffers pt <= zlen data - 8 /\ zlen (pt_buffers pt) = pt_cbuffers pt.
Proof. exact pac_table_alloc_bounded. Qed.
Print Assumptions C19_table_alloc_bounded.

(* attribute faithfulness for the one info buffer the model decodes itself (PAC_CLIENT_INFO is not NDR):
   ClientId, NameLength and the name are what the buffer holds at the MS-PAC positions *)
Theorem C19_client_info_layout : forall p ci, client_info_unmarshal p = Ok ci ->
  10 <= zlen p /\
  ci_lo ci = le_val (firstn 4 p) /\ ci_hi ci = le_val (firstn 4 (skipn 4 p)) /\
  ci_namelen ci = le_val (firstn 2 (skipn 8 p)) /\
  (10 + 2 * Z.to_nat (ci_namelen ci / 2) <= length p)%nat /\
  ci_name ci = flat_map utf8_of_u16 (map (u16_at (skipn 10 p)) (seq 0 (Z.to_nat (ci_namelen ci / 2)))).
Proof. exact client_info_layout. Qed.
Print Assumptions C19_client_info_layout.
