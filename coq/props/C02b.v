(* C02, second layer — whole histories: no authenticator is ever accepted twice. *)
From Gokrb5.lib Require Import Bytes JV.
From Gokrb5.model Require Import Replay.
From Gokrb5.proofs Require Import ReplayProofs ReplayHistory.

(* Over every history of presentations, clean-ups and non-negative clock advances, from every cache state,
   the authenticators accepted are pairwise distinct: an entry is dropped by clean-up only when it has aged
   out of the skew window, and from then on (monotone clock) the skew check itself rejects it. *)
Theorem C02_no_authenticator_accepted_twice : forall d ops s,
  nonneg_advances ops -> NoDup (accepted d s ops).
Proof. exact accepted_NoDup. Qed.
Print Assumptions C02_no_authenticator_accepted_twice.

(* `accepted` is exactly what the verdict stream reports *)
Theorem C02_accepted_counts_verdicts : forall d ops s,
  length (accepted d s ops) = count_accept (snd (run d s ops)).
Proof. exact accepted_length. Qed.
Print Assumptions C02_accepted_counts_verdicts.

(* what the cache already remembers is never accepted again, whatever happens in between *)
Theorem C02_remembered_never_accepted : forall d s a ops,
  In a (cache s) -> nonneg_advances ops -> ~ In a (accepted d s ops).
Proof. exact remembered_never_accepted. Qed.
Print Assumptions C02_remembered_never_accepted.

(* "whenever cache clean-up runs": a clean-up changes no verdict on an authenticator that passes the skew check *)
Theorem C02_cleanup_invisible_to_fresh : forall d s a,
  acceptable d (now s) a = true ->
  snd (step d (fst (step d s Clear)) (Present a)) = snd (step d s (Present a)).
Proof. exact clear_preserves_fresh. Qed.
Print Assumptions C02_cleanup_invisible_to_fresh.

(* non-vacuity: a history with a clean-up between two presentations, a clock advance past the window and a
   third presentation: accepted once, then replay, then skew *)
Example C02b_history :
  let a := mkAuth [1] 100 [[2]] in
  snd (run 10 (mkState 100 []) [Present a; Clear; Present a; Advance 11; Clear; Present a])
  = [VAccept; VNone; VReplay; VNone; VNone; VSkew].
Proof. vm_compute. reflexivity. Qed.
