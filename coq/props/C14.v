(* C14 — Keytab files round-trip and key lookup returns only a matching key.
   This file holds only the property theorems; each is closed by `exact` of a lemma proved in proofs/. *)
From Gokrb5.lib Require Import Bytes JV.
From Gokrb5.model Require Import Keytab.
From Gokrb5.proofs Require Import KeytabLookup KeytabParse KeytabTotal.

(* Every well-formed file (both versions, holes, entries with or without the 32-bit kvno) parses to
   exactly the entries an independent reading of the grammar yields. *)
Theorem C14_parse_grammar : forall v items,
  v = 1 \/ v = 2 -> Forall (wf_item v) items ->
  kt_unmarshal (render v items) = Ok (v, entries_of v items).
Proof. exact kt_parse_grammar. Qed.
Print Assumptions C14_parse_grammar.

(* Serialising any representable keytab and parsing the result yields the same entries. *)
Theorem C14_roundtrip : forall v es,
  v = 1 \/ v = 2 -> Forall (wf_entry v) es -> Forall (canonical v) es ->
  kt_unmarshal (kt_marshal v es) = Ok (v, es).
Proof. exact kt_roundtrip_same. Qed.
Print Assumptions C14_roundtrip.

Theorem C14_roundtrip_norm : forall v es,
  v = 1 \/ v = 2 -> Forall (wf_entry v) es ->
  kt_unmarshal (kt_marshal v es) = Ok (v, map (norm_entry v) es).
Proof. exact kt_roundtrip. Qed.
Print Assumptions C14_roundtrip_norm.

(* Look-up returns only an exactly matching entry, the newest one. *)
Theorem C14_get_key_sound : forall es names realm kvno etype key kt kv,
  get_key es names realm kvno etype = Ok (key, kt, kv) ->
  exists e, In e es /\ matches names realm kvno etype e /\
            key = e_key e /\ kt = e_ktype e /\ kv = e_kvno e /\
            (forall e', In e' es -> matches names realm kvno etype e' -> e_ts e' <= e_ts e).
Proof. exact get_key_sound. Qed.
Print Assumptions C14_get_key_sound.

Theorem C14_get_key_fails_without_match : forall es names realm kvno etype,
  (forall e, In e es -> ~ matches names realm kvno etype e) ->
  get_key es names realm kvno etype = Err 20.
Proof. exact get_key_none. Qed.
Print Assumptions C14_get_key_fails_without_match.

Theorem C14_get_key_complete : forall es names realm kvno etype,
  (forall e, In e es -> e_key e <> []) ->
  (exists e, In e es /\ matches names realm kvno etype e) ->
  exists key kt kv, get_key es names realm kvno etype = Ok (key, kt, kv).
Proof. exact get_key_complete. Qed.
Print Assumptions C14_get_key_complete.

(* The parser neither panics nor loops on any byte string. *)
Theorem C14_unmarshal_total : forall b, fine (kt_unmarshal b).
Proof. exact kt_unmarshal_total. Qed.
Print Assumptions C14_unmarshal_total.
