(* C05, second layer — the fresh-confounder clause for the AES profiles. *)
From Gokrb5.lib Require Import Bytes JV.
From Gokrb5.model Require Import Crypto.
From Gokrb5.proofs Require Import CryptoBasic CryptoRoundTrip CryptoFresh.

(* Under one key and key usage, two encryptions of the same plaintext with different confounders never give the
   same ciphertext (aes128/256-cts-hmac-sha1-96 and aes128/256-cts-hmac-sha256/384): encryption is injective in
   the confounder because CTS decryption recovers confounder and plaintext.  Contrapositive form. *)
Theorem C05_aes_sha1_fresh_confounder : forall et key usage c1 c2 msg ct1 ct2,
  length c1 = 16%nat -> length c2 = 16%nat ->
  wf_bytes key -> wf_bytes c1 -> wf_bytes c2 -> wf_bytes msg ->
  et_family et = Some FAesSha1 ->
  encrypt_with et key usage c1 msg = Ok ct1 -> encrypt_with et key usage c2 msg = Ok ct2 ->
  ct1 = ct2 -> c1 = c2.
Proof. exact aes_sha1_confounder_injective. Qed.
Print Assumptions C05_aes_sha1_fresh_confounder.

Theorem C05_aes_sha2_fresh_confounder : forall et key usage c1 c2 msg ct1 ct2,
  length c1 = 16%nat -> length c2 = 16%nat ->
  wf_bytes key -> wf_bytes c1 -> wf_bytes c2 -> wf_bytes msg ->
  et_family et = Some FAesSha2 ->
  encrypt_with et key usage c1 msg = Ok ct1 -> encrypt_with et key usage c2 msg = Ok ct2 ->
  ct1 = ct2 -> c1 = c2.
Proof. exact aes_sha2_confounder_injective. Qed.
Print Assumptions C05_aes_sha2_fresh_confounder.

(* non-vacuity: both encryptions succeed and differ *)
Example C05b_two_confounders :
  match encrypt_with 17 (repeatz 7 16) 2 (repeatz 1 16) [104;105], encrypt_with 17 (repeatz 7 16) 2 (repeatz 2 16) [104;105] with
  | Ok a, Ok b => beq_bytes a b = false
  | _, _ => False
  end.
Proof. vm_compute. reflexivity. Qed.
