(* C12, second layer — statements free of the no-KRB-ERROR hypothesis, and about the attempts made. *)
From Gokrb5.lib Require Import Bytes JV.
From Gokrb5.model Require Import Network.
From Gokrb5.lib Require Import GoString.
From Gokrb5.model Require Import Krb5Conf Hosts.
From Gokrb5.proofs Require Import NetworkProofs NetworkMore NetworkHosts.

(* Whatever the other endpoints do (refuse, time out, close early, answer KRB-ERROR), a reply handed to the
   caller is one a configured KDC gave over a transport the configuration permits. *)
Theorem C12_reply_sound : forall mode beh ou ot y,
  fst (send_to_kdc mode beh ou ot) = Reply y ->
  (exists k, In k ot /\ beh k TCP = Answers y) \/ (mode <> 0 /\ exists k, In k ou /\ beh k UDP = Answers y).
Proof. exact reply_sound. Qed.
Print Assumptions C12_reply_sound.

(* The call ends in a communication error ONLY IF no TCP endpoint works and, where UDP is permitted, no UDP
   endpoint works either (or UDP ended in response-too-big, which sends the client to TCP): the converse of
   C12_all_dead_fails. *)
Theorem C12_comm_err_only_if_all_dead : forall mode beh ou ot,
  fst (send_to_kdc mode beh ou ot) = CommErr ->
  (forall k, In k ot -> dead (beh k TCP)) /\
  (mode <> 0 -> forall k, In k ou -> dead (beh k UDP) \/ (mode = 1 /\ exists j, In j ou /\ beh j UDP = KrbError too_big)).
Proof. exact comm_err_only_if_all_dead. Qed.
Print Assumptions C12_comm_err_only_if_all_dead.

(* Every attempt goes to a configured server of that transport, and no endpoint is tried twice in one exchange:
   the bound of C12_attempts_bounded is met only by trying each endpoint once. *)
Theorem C12_attempts_are_configured : forall mode beh ou ot k t,
  In (k, t) (snd (send_to_kdc mode beh ou ot)) -> In k (match t with UDP => ou | TCP => ot end).
Proof. exact attempts_are_configured. Qed.
Print Assumptions C12_attempts_are_configured.

Theorem C12_no_attempt_repeated : forall mode beh ou ot,
  NoDup ou -> NoDup ot -> NoDup (snd (send_to_kdc mode beh ou ot)).
Proof. exact no_attempt_repeated. Qed.
Print Assumptions C12_no_attempt_repeated.

(* Composition with the C16 model: the server order GetKDCs returns for a realm with configured KDCs is
   duplicate-free (indices 1..n of a permutation of the configured servers), so the premise of the previous theorem
   is met by the order sendToKDC actually receives. *)
Theorem C12_getkdcs_order_no_attempt_repeated : forall (c : hcfg) (rname : bytes) (oracle : list Z) mode beh,
  let name := if is_nil rname then h_default_realm c else rname in
  last_kdcs name (h_realms c) <> [] ->
  exists n ks c', get_kdcs c rname oracle = Ok (n, ks, c') /\
    NoDup (map fst ks) /\
    NoDup (snd (send_to_kdc mode beh (map fst ks) (map fst ks))).
Proof. exact getkdcs_order_no_attempt_repeated. Qed.
Print Assumptions C12_getkdcs_order_no_attempt_repeated.

(* non-vacuity: three KDCs, the first refuses, the second answers KRB-ERROR too-big over UDP, the third answers
   over TCP only: UDP first, then TCP, five attempts, none repeated *)
Example C12b_example :
  let beh k t := match k, t with
                 | 0, _ => Refuses
                 | 1, UDP => KrbError too_big
                 | 1, TCP => Silent
                 | 2, TCP => Answers 7
                 | _, _ => ClosesEarly end in
  send_to_kdc 1 beh [0; 1; 2] [0; 1; 2] = (Reply 7, [(0, UDP); (1, UDP); (0, TCP); (1, TCP); (2, TCP)]).
Proof. vm_compute. reflexivity. Qed.
